"""The simulated world: file system, processes, streams, clock, fault plan.

One World per simulated run.  Everything the interpreter can reach outside
itself goes through an object created here, so every effect is an event in
``World.trace`` (with a global sequence number) and every effect site is a
place where the fault plan can strike.

The virtual file system is backed by real files in a run-private directory
(virtual prefix ``/sim``), so code that bypasses a proxy still sees a
consistent world; the audit hook (seams.py) then records the bypass.
"""
import errno
import hashlib
import io
import os
import shutil as _real_shutil

VROOT = "/sim"
SUT_SRC = os.path.realpath(os.environ.get("SIMCKL_SRC", "/repo/src"))

ERRNOS = {
    "ENOENT": errno.ENOENT, "EACCES": errno.EACCES, "EISDIR": errno.EISDIR,
    "EMFILE": errno.EMFILE, "EIO": errno.EIO, "ENOSPC": errno.ENOSPC,
    "ENOTDIR": errno.ENOTDIR, "EEXIST": errno.EEXIST, "EBUSY": errno.EBUSY,
    "EXDEV": errno.EXDEV, "EPERM": errno.EPERM, "ENOTEMPTY": errno.ENOTEMPTY,
    "EROFS": errno.EROFS, "EINTR": errno.EINTR,
}


def make_error(spec, path=None):
    """Build the host exception a fault spec stands for."""
    err = spec.get("err", "EIO")
    if err in ERRNOS:
        return OSError(ERRNOS[err], os.strerror(ERRNOS[err]), path)
    if err == "UNICODE":
        return UnicodeDecodeError("utf-8", b"\xff\xfe", 0, 1,
                                  "invalid start byte")
    if err == "VALUE":
        return ValueError("I/O operation on closed file.")
    if err == "TIMEOUT":
        return TimeoutError("simulated timeout")
    if err == "TYPE":
        return TypeError("a bytes-like object is required, not 'str'")
    if err == "ATTR":
        return AttributeError("'Stream' object has no attribute 'flush'")
    if err == "RUNTIME":
        return RuntimeError("simulated stream failure")
    if err == "PIPE":
        return BrokenPipeError(errno.EPIPE, os.strerror(errno.EPIPE))
    return OSError(errno.EIO, "simulated I/O error", path)


class World:
    def __init__(self, root):
        self.root = os.path.realpath(root)
        os.makedirs(self.root, exist_ok=True)
        self.home = VROOT + "/home"
        self.cwd = VROOT + "/cwd"
        os.makedirs(self.real(self.home), exist_ok=True)
        os.makedirs(self.real(self.cwd), exist_ok=True)
        self.environ = {"HOME": self.home, "PATH": VROOT + "/bin"}
        self.trace = []          # every event, in order
        self.seq = 0
        self.actor = "-"         # which interpreter instance is running
        self.op = -1             # index of the current command
        self.sut_running = False
        self.in_proxy = 0
        # fault plan
        self.plan = []           # faults armed for the current op
        self.persistent = []     # faults that stay until healed
        self.counts = {}         # site -> number of hits in current op
        self.fired = {}          # site/err -> count over the whole run
        self.fired_in_op = []    # specs fired in the current op
        self.site_hits = {}      # site -> hits over the whole run
        self.bypass = []         # audit events that did not come via a proxy
        # processes
        self.programs = {}       # virtual path or bare name -> (rc, stdout)
        # clock
        self.t0 = 1_700_000_000.0
        self.clock_offset = 0.0
        self.steps = None        # set by steps.StepClock
        self.listdir_perm = None  # optional permutation seed (buggify)
        self.mtimes = {}         # virtual path -> simulated mtime

    # -- paths ------------------------------------------------------------
    def real(self, vpath):
        vpath = os.fspath(vpath)
        if isinstance(vpath, bytes):
            vpath = vpath.decode("utf-8", "replace")
        if not vpath.startswith("/"):
            vpath = self.cwd + "/" + vpath
        vpath = os.path.normpath(vpath)
        if vpath == VROOT:
            return self.root
        if vpath.startswith(VROOT + "/"):
            return self.root + vpath[len(VROOT):]
        if vpath.startswith(self.root + "/") or vpath == self.root:
            return vpath
        if vpath.startswith(SUT_SRC + "/"):
            # the interpreter's own package directory (bundled modules) is
            # part of the world as it is; every other absolute path of the
            # host is not
            return vpath
        return self.root + "/_outside" + vpath

    def virt(self, rpath):
        rpath = os.fspath(rpath)
        if rpath == self.root:
            return VROOT
        if rpath.startswith(self.root + "/"):
            rest = rpath[len(self.root):]
            if rest.startswith("/_outside/"):
                return rest[len("/_outside"):]
            return VROOT + rest
        return rpath

    def norm(self, vpath):
        """canonical virtual spelling used in logs"""
        return self.virt(self.real(vpath))

    # -- world construction helpers (not observed) ------------------------
    def put_file(self, vpath, data):
        r = self.real(vpath)
        os.makedirs(os.path.dirname(r), exist_ok=True)
        mode = "wb" if isinstance(data, bytes) else "w"
        kw = {} if isinstance(data, bytes) else {"encoding": "utf-8",
                                                  "newline": ""}
        with open(r, mode, **kw) as f:
            f.write(data)
        self.touch(vpath)

    def touch(self, vpath):
        """the file's simulated modification time becomes 'now'"""
        self.mtimes[self.norm(vpath)] = self.now_ts()

    def mtime(self, vpath):
        return self.mtimes.get(self.norm(vpath), self.t0)

    def put_dir(self, vpath):
        os.makedirs(self.real(vpath), exist_ok=True)

    def put_symlink(self, vpath, target):
        """a symbolic link inside the virtual tree; `target` is relative"""
        r = self.real(vpath)
        os.makedirs(os.path.dirname(r), exist_ok=True)
        os.symlink(target, r)

    def read_file(self, vpath):
        with open(self.real(vpath), "rb") as f:
            return f.read()

    def exists(self, vpath):
        return os.path.lexists(self.real(vpath))

    def snapshot(self, vdir=VROOT):
        """sorted list of (virtual path, kind, sha256) below vdir"""
        out = []
        base = self.real(vdir)
        for d, dirs, files in os.walk(base):
            dirs.sort()
            for n in sorted(files):
                p = os.path.join(d, n)
                with open(p, "rb") as f:
                    h = hashlib.sha256(f.read()).hexdigest()[:16]
                out.append((self.virt(p), "f", h))
            for n in dirs:
                out.append((self.virt(os.path.join(d, n)), "d", ""))
        out.sort()
        return out

    def destroy(self):
        _real_shutil.rmtree(self.root, ignore_errors=True)

    # -- events and faults ------------------------------------------------
    def log(self, kind, *fields):
        self.seq += 1
        self.trace.append((self.seq, self.actor, kind) + fields)

    def begin_op(self, index, actor, faults):
        self.op = index
        self.actor = actor
        self.plan = [dict(f) for f in (faults or [])]
        for f in self.plan:
            if f.get("persist"):
                self.persistent.append(f)
        self.plan = [f for f in self.plan if not f.get("persist")]
        self.counts = {}
        self.fired_in_op = []

    def end_op(self):
        self.plan = []
        self.actor = "-"

    def heal(self, path=None):
        if path is None:
            self.persistent = []
        else:
            self.persistent = [f for f in self.persistent
                               if f.get("path") != path]

    def hit(self, site, path=None):
        """called at every effect site; returns the fault spec that fires
        here, or None.  Pure bookkeeping: draws no random numbers."""
        n = self.counts.get(site, 0)
        self.counts[site] = n + 1
        self.site_hits[site] = self.site_hits.get(site, 0) + 1
        for f in self.plan:
            if f["site"] != site or f.get("_done"):
                continue
            if "nth" in f and f["nth"] != n:
                continue
            if "path" in f and (path is None or f["path"] not in path):
                continue
            f["_done"] = True
            return self._fire(f, site, path)
        for f in self.persistent:
            if f["site"] != site:
                continue
            if "path" in f and (path is None or f["path"] not in path):
                continue
            return self._fire(f, site, path)
        return None

    def _fire(self, f, site, path):
        key = site + ":" + str(f.get("err", "EIO"))
        self.fired[key] = self.fired.get(key, 0) + 1
        self.fired_in_op.append({k: v for k, v in f.items()
                                 if not k.startswith("_")})
        self.log("fault", site, f.get("err", "EIO"), path or "")
        return f

    # -- clock ------------------------------------------------------------
    def now_ts(self):
        steps = self.steps.total if self.steps is not None else 0
        return self.t0 + self.clock_offset + steps * 0.001

    def digest(self):
        h = hashlib.sha256()
        for ev in self.trace:
            h.update(repr(ev).encode("utf-8", "backslashreplace"))
            h.update(b"\n")
        return h.hexdigest()[:24]


# ------------------------------------------------------------------------
# simulated streams (the existing seam: Interpreter.setStandardInput/Output)

class SimOut:
    """stdout-like object handed to Interpreter.setStandardOutput.

    One write = one event = one fault site ('out.write')."""

    def __init__(self, world, name="stdout"):
        self.world = world
        self.name = name
        self.chunks = []
        self.closed = False

    def write(self, s):
        w = self.world
        f = w.hit("out.write", self.name)
        if f is not None:
            raise make_error(f, self.name)
        if self.closed:
            raise ValueError("I/O operation on closed file.")
        self.chunks.append(s)
        w.log("out", self.name, s)
        return len(s)

    def flush(self):
        f = self.world.hit("out.flush", self.name)
        if f is not None:
            raise make_error(f, self.name)

    def close(self):
        f = self.world.hit("out.close", self.name)
        if f is not None:
            raise make_error(f, self.name)
        self.closed = True
        self.world.log("outclose", self.name)

    def text(self):
        return "".join(self.chunks)


class SimIn:
    """stdin-like object for Interpreter.setStandardInput; implements the
    protocol ValueInput expects (read / readLine / readAll / process /
    close), each call being a fault site ('in.read')."""

    def __init__(self, world, text, name="stdin"):
        self.world = world
        self.name = name
        self.input = text
        self.pos = 0
        self.closed = False

    def _site(self):
        f = self.world.hit("in.read", self.name)
        if f is not None:
            if f.get("err") == "EOF":
                self.pos = len(self.input)
                return
            raise make_error(f, self.name)
        if self.closed:
            raise ValueError("I/O operation on closed file.")

    def read(self):
        self._site()
        if self.pos >= len(self.input):
            return None
        c = self.input[self.pos]
        self.pos += 1
        self.world.log("in", self.name, c)
        return c

    def readAll(self):
        self._site()
        if self.pos >= len(self.input):
            return None
        r = self.input[self.pos:]
        self.pos = len(self.input)
        self.world.log("in", self.name, r)
        return r

    def readLine(self):
        self._site()
        if self.pos >= len(self.input):
            return None
        i = self.input.find("\n", self.pos)
        if i == -1:
            r = self.input[self.pos:]
            self.pos = len(self.input)
        else:
            r = self.input[self.pos:i]
            self.pos = i + 1
        self.world.log("in", self.name, r)
        return r

    def process(self, callback):
        n = 0
        line = self.readLine()
        while line:
            callback(line)
            n += 1
            line = self.readLine()
        return n

    def close(self):
        self.closed = True
        self.world.log("inclose", self.name)


class SimTextIn:
    """stdin-like object with the *Python text stream* API (read, readline,
    readlines, iteration, close) instead of the protocol ValueInput
    expects; hosts may try to pass such a stream to setStandardInput"""

    def __init__(self, world, text, name="stdin"):
        self.world = world
        self.name = name
        self.data = text
        self.pos = 0
        self.closed = False

    def _site(self):
        f = self.world.hit("in.read", self.name)
        if f is not None:
            if f.get("err") == "EOF":
                self.pos = len(self.data)
                return
            raise make_error(f, self.name)
        if self.closed:
            raise ValueError("I/O operation on closed file.")

    def read(self, n=-1):
        self._site()
        if n is None or n < 0:
            out = self.data[self.pos:]
            self.pos = len(self.data)
        else:
            out = self.data[self.pos:self.pos + n]
            self.pos += len(out)
        self.world.log("in", self.name, out)
        return out

    def readline(self, *a):
        self._site()
        i = self.data.find("\n", self.pos)
        if i == -1:
            out = self.data[self.pos:]
            self.pos = len(self.data)
        else:
            out = self.data[self.pos:i + 1]
            self.pos = i + 1
        self.world.log("in", self.name, out)
        return out

    def readlines(self, *a):
        out = []
        while True:
            ln = self.readline()
            if not ln:
                return out
            out.append(ln)

    def __iter__(self):
        return iter(self.readlines())

    def readable(self):
        return True

    def close(self):
        self.closed = True
        self.world.log("inclose", self.name)


# ------------------------------------------------------------------------
# file objects

class SimFile:
    def __init__(self, world, fobj, vpath, mode):
        self._w = world
        self._f = fobj
        self._vpath = vpath
        self._mode = mode
        self._short = None

    # reading
    def read(self, *a):
        w = self._w
        f = w.hit("fs.read", self._vpath)
        if f is not None:
            err = f.get("err", "EIO")
            if err.startswith("SHORT"):
                k = int(err.split(":")[1]) if ":" in err else 1
                data = self._f.read(*a)
                lines = data.splitlines(keepends=True)
                data = "".join(lines[:k]) if isinstance(data, str) \
                    else b"".join(lines[:k])
                w.log("fsread", self._vpath, len(data), "short")
                return data
            raise make_error(f, self._vpath)
        w.in_proxy += 1
        try:
            data = self._f.read(*a)
        finally:
            w.in_proxy -= 1
        w.log("fsread", self._vpath, len(data))
        return data

    def readline(self, *a):
        f = self._w.hit("fs.read", self._vpath)
        if f is not None:
            raise make_error(f, self._vpath)
        return self._f.readline(*a)

    def readlines(self, *a):
        f = self._w.hit("fs.read", self._vpath)
        if f is not None:
            raise make_error(f, self._vpath)
        return self._f.readlines(*a)

    def __iter__(self):
        return iter(self.readlines())

    # writing
    def write(self, s):
        w = self._w
        f = w.hit("fs.write", self._vpath)
        if f is not None:
            raise make_error(f, self._vpath)
        w.in_proxy += 1
        try:
            n = self._f.write(s)
        finally:
            w.in_proxy -= 1
        w.log("fswrite", self._vpath, len(s))
        w.touch(self._vpath)
        return n

    def writelines(self, lines):
        for ln in lines:
            self.write(ln)

    def flush(self):
        f = self._w.hit("fs.flush", self._vpath)
        if f is not None:
            raise make_error(f, self._vpath)
        self._f.flush()

    def close(self):
        f = self._w.hit("fs.close", self._vpath)
        if f is not None:
            try:
                self._f.close()
            finally:
                pass
            raise make_error(f, self._vpath)
        self._f.close()

    @property
    def closed(self):
        return self._f.closed

    def __enter__(self):
        return self

    def __exit__(self, *exc):
        # like a real file object: close errors propagate only when the
        # body did not raise
        try:
            self.close()
        except Exception:
            if exc[0] is None:
                raise
        return False

    def __getattr__(self, name):
        return getattr(self._f, name)


# ------------------------------------------------------------------------
# proxies standing in for the modules / builtins the interpreter imports

class OpenProxy:
    def __init__(self, world):
        self.w = world

    def __call__(self, file, mode="r", *args, **kw):
        w = self.w
        vpath = w.norm(file) if not isinstance(file, int) else "<fd>"
        w.log("open", vpath, mode)
        f = w.hit("fs.open", vpath)
        if f is not None:
            raise make_error(f, vpath)
        w.in_proxy += 1
        try:
            try:
                fobj = io.open(w.real(file), mode, *args, **kw)
            except OSError as e:
                raise _revirt(w, e)
        finally:
            w.in_proxy -= 1
        return SimFile(w, fobj, vpath, mode)


def _revirt(world, e):
    """rewrite real paths in an OSError to virtual ones (keeps class)"""
    try:
        fn = world.virt(e.filename) if e.filename else e.filename
        fn2 = world.virt(e.filename2) if e.filename2 else None
        if fn2 is not None:
            return type(e)(e.errno, e.strerror, fn, None, fn2)
        return type(e)(e.errno, e.strerror, fn)
    except Exception:
        return e


class PathProxy:
    """os.path with the world-dependent predicates routed through World"""

    def __init__(self, world):
        self.w = world

    def _probe(self, name, p):
        w = self.w
        vpath = w.norm(p)
        w.log("stat", name, vpath)
        f = w.hit("fs.stat", vpath)
        if f is not None:
            # the os.path predicates swallow OSError and answer False
            return None
        return w.real(p)

    def exists(self, p):
        r = self._probe("exists", p)
        return r is not None and os.path.exists(r)

    def lexists(self, p):
        r = self._probe("lexists", p)
        return r is not None and os.path.lexists(r)

    def isdir(self, p):
        r = self._probe("isdir", p)
        return r is not None and os.path.isdir(r)

    def isfile(self, p):
        r = self._probe("isfile", p)
        return r is not None and os.path.isfile(r)

    def islink(self, p):
        r = self._probe("islink", p)
        return r is not None and os.path.islink(r)

    def getsize(self, p):
        return OsProxy._meta(self.w, "getsize", p, os.path.getsize)

    def getmtime(self, p):
        OsProxy._meta(self.w, "getmtime", p, os.path.getmtime)
        return self.w.mtime(p)

    def expanduser(self, p):
        if p == "~":
            return self.w.home
        if p.startswith("~/"):
            return self.w.home + p[1:]
        return p

    def abspath(self, p):
        p = os.fspath(p)
        if not p.startswith("/"):
            p = self.w.cwd + "/" + p
        return os.path.normpath(p)

    def realpath(self, p, **kw):
        # resolves symbolic links inside the virtual tree
        return self.w.virt(os.path.realpath(self.w.real(p)))

    def __getattr__(self, name):
        return getattr(os.path, name)


class SimStat:
    """a stat result whose timestamps come from the simulated clock (the
    backing files carry the host's real times, which must never be seen)"""

    def __init__(self, world, st, vpath=None):
        self._st = st
        mt = world.mtime(vpath) if vpath is not None else world.t0
        self.st_mtime = mt
        self.st_ctime = self.st_atime = world.t0
        self.st_mtime_ns = int(mt * 10**9)
        self.st_ctime_ns = self.st_atime_ns = int(world.t0) * 10**9
        self.st_ino = 0
        self.st_dev = 0

    def __getattr__(self, name):
        return getattr(self._st, name)


class OsProxy:
    """stands in for the ``os`` module inside ckl.functions / ckl.nodes"""

    def __init__(self, world):
        self.w = world
        self.path = PathProxy(world)
        self.environ = world.environ

    @staticmethod
    def _meta(w, name, p, fn, *rest, site="fs.meta"):
        vpath = w.norm(p)
        w.log("os", name, vpath, *[w.norm(x) if isinstance(x, str) else x
                                  for x in rest])
        f = w.hit(site, vpath)
        if f is not None:
            raise make_error(f, vpath)
        w.in_proxy += 1
        try:
            try:
                return fn(w.real(p), *[w.real(x) if isinstance(x, str)
                                       else x for x in rest])
            except OSError as e:
                raise _revirt(w, e)
        finally:
            w.in_proxy -= 1

    def lstat(self, p):
        return SimStat(self.w, self._meta(self.w, "lstat", p, os.lstat,
                                          site="fs.stat"), p)

    def stat(self, p):
        return SimStat(self.w, self._meta(self.w, "stat", p, os.stat,
                                          site="fs.stat"), p)

    def listdir(self, p="."):
        r = self._meta(self.w, "listdir", p, os.listdir)
        r = sorted(r)
        if self.w.listdir_perm is not None:
            import random
            random.Random(self.w.listdir_perm).shuffle(r)
        return r

    def scandir(self, p="."):
        return self._meta(self.w, "scandir", p, os.scandir)

    def walk(self, top, *a, **kw):
        w = self.w
        w.log("os", "walk", w.norm(top))
        f = w.hit("fs.meta", w.norm(top))
        if f is not None:
            raise make_error(f, w.norm(top))
        out = []
        for d, dirs, files in os.walk(w.real(top), *a, **kw):
            dirs.sort()
            out.append((w.virt(d), list(dirs), sorted(files)))
        return iter(out)

    def mkdir(self, p, *a, **kw):
        return self._meta(self.w, "mkdir", p, os.mkdir)

    def makedirs(self, p, *a, exist_ok=False, **kw):
        return self._meta(self.w, "makedirs", p,
                          lambda r: os.makedirs(r, exist_ok=exist_ok))

    def remove(self, p):
        return self._meta(self.w, "remove", p, os.remove)

    unlink = remove

    def rmdir(self, p):
        return self._meta(self.w, "rmdir", p, os.rmdir)

    def rename(self, a, b):
        return self._meta(self.w, "rename", a, os.rename, b)

    def replace(self, a, b):
        return self._meta(self.w, "replace", a, os.replace, b)

    def chmod(self, p, mode):
        return self._meta(self.w, "chmod", p, os.chmod, mode)

    def utime(self, p, *a, **kw):
        return self._meta(self.w, "utime", p, lambda r: os.utime(r, *a, **kw))

    def getcwd(self):
        return self.w.cwd

    def chdir(self, p):
        self.w.log("os", "chdir", self.w.norm(p))
        self.w.cwd = self.w.norm(p)

    def getenv(self, k, default=None):
        return self.environ.get(k, default)

    def system(self, cmd):
        self.w.log("proc", "system", str(cmd))
        return 127

    def popen(self, cmd, *a, **kw):
        self.w.log("proc", "popen", str(cmd))
        raise OSError(errno.ENOENT, "simulated: no such program")

    def fspath(self, p):
        return os.fspath(p)

    def __getattr__(self, name):
        val = getattr(os, name)
        if callable(val) and not isinstance(val, type):
            w = self.w

            def passthrough(*a, **kw):
                # unknown os function: record it, translate path-like
                # string arguments, and run it against the real backing
                # store (never against the host's own files)
                w.log("os", name, *[w.norm(x) if isinstance(x, str) else
                                    repr(x) for x in a])
                w.in_proxy += 1
                try:
                    return val(*[w.real(x) if isinstance(x, str) else x
                                 for x in a], **kw)
                finally:
                    w.in_proxy -= 1
            return passthrough
        return val


class ShutilProxy:
    def __init__(self, world):
        self.w = world

    def _two(self, name, fn, a, b):
        return OsProxy._meta(self.w, name, a, fn, b, site="fs.meta")

    def copy2(self, a, b, **kw):
        return self._two("copy2", _real_shutil.copy2, a, b)

    def copy(self, a, b, **kw):
        return self._two("copy", _real_shutil.copy, a, b)

    def copyfile(self, a, b, **kw):
        return self._two("copyfile", _real_shutil.copyfile, a, b)

    def move(self, a, b, **kw):
        return self._two("move", _real_shutil.move, a, b)

    def copytree(self, a, b, **kw):
        return self._two("copytree", _real_shutil.copytree, a, b)

    def rmtree(self, p, *a, **kw):
        return OsProxy._meta(self.w, "rmtree", p, _real_shutil.rmtree)

    def which(self, name, *a, **kw):
        self.w.log("os", "which", str(name))
        for key in self.w.programs:
            if key == name or key.endswith("/" + name):
                return key
        return None

    def __getattr__(self, name):
        return getattr(_real_shutil, name)


class Completed:
    def __init__(self, args, returncode, stdout=None, stderr=None):
        self.args = args
        self.returncode = returncode
        self.stdout = stdout
        self.stderr = stderr

    def check_returncode(self):
        if self.returncode:
            import subprocess
            raise subprocess.CalledProcessError(self.returncode, self.args)


class SubprocessProxy:
    """no real process is ever started"""

    def __init__(self, world):
        self.w = world
        import subprocess
        self.PIPE = subprocess.PIPE
        self.STDOUT = subprocess.STDOUT
        self.DEVNULL = subprocess.DEVNULL
        self.CalledProcessError = subprocess.CalledProcessError
        self.TimeoutExpired = subprocess.TimeoutExpired
        self.SubprocessError = subprocess.SubprocessError
        self.CompletedProcess = Completed

    def _spawn(self, how, cmd, cwd=None, capture_output=False, **kw):
        w = self.w
        argv = [cmd] if isinstance(cmd, str) else list(cmd)
        argv = [str(a) for a in argv]
        prog = argv[0] if argv else ""
        w.log("proc", how, tuple(argv), w.norm(cwd) if cwd else "")
        f = w.hit("proc.run", prog)
        if f is not None:
            if f.get("err") == "RC":
                return Completed(argv, int(f.get("rc", 1)),
                                 "" if capture_output else None)
            raise make_error(f, prog)
        if cwd is not None and not os.path.isdir(w.real(cwd)):
            raise NotADirectoryError(errno.ENOTDIR,
                                     os.strerror(errno.ENOTDIR), cwd)
        entry = w.programs.get(prog)
        if entry is None and "/" in prog:
            entry = w.programs.get(w.norm(prog))
        if entry is None:
            if os.path.isdir(w.real(prog)) or (
                    "/" in prog and os.path.exists(w.real(prog))):
                raise PermissionError(errno.EACCES,
                                      os.strerror(errno.EACCES), prog)
            raise FileNotFoundError(errno.ENOENT,
                                    os.strerror(errno.ENOENT), prog)
        rc, out = entry[0], entry[1]
        err = entry[2] if len(entry) > 2 else ""
        keep = capture_output or kw.get("stdout") is not None
        return Completed(argv, rc, out if keep else None,
                         err if keep else None)

    def run(self, cmd, **kw):
        kw.pop("encoding", None)
        kw.pop("text", None)
        check = kw.pop("check", False)
        r = self._spawn("run", cmd, **kw)
        if check:
            r.check_returncode()
        return r

    def call(self, cmd, **kw):
        return self._spawn("call", cmd, **kw).returncode

    def check_call(self, cmd, **kw):
        r = self._spawn("check_call", cmd, **kw)
        r.check_returncode()
        return 0

    def check_output(self, cmd, **kw):
        kw.pop("encoding", None)
        kw.pop("text", None)
        r = self._spawn("check_output", cmd, capture_output=True, **kw)
        r.check_returncode()
        return r.stdout

    def getoutput(self, cmd, **kw):
        return self._spawn("getoutput", cmd, capture_output=True).stdout or ""

    def Popen(self, cmd, **kw):
        kw.pop("encoding", None)
        kw.pop("text", None)
        want_out = kw.get("stdout") == self.PIPE
        want_err = kw.get("stderr") == self.PIPE
        r = self._spawn("Popen", cmd, capture_output=True,
                        **{k: v for k, v in kw.items() if k in ("cwd",)})
        return SimProcess(self.w, r, want_out, want_err)


PIPE_CAPACITY = 65536


class SimDeadlock(BaseException):
    """the simulated child process and the interpreter wait for each other
    forever (reported like any other non-termination)"""


class SimPipe:
    """the read end of a pipe to the simulated child.  The child produces
    its stdout and stderr and then exits; it blocks while a pipe it writes
    to is full.  Reading one pipe to EOF therefore never returns while the
    other one holds more than a pipe buffer of undrained data."""

    def __init__(self, proc, name, data):
        self.proc = proc
        self.name = name
        self.data = data or ""
        self.pos = 0
        self.closed = False

    def pending(self):
        return len(self.data) - self.pos

    def _to_eof(self):
        self.proc.check_blocked(reading=self)
        out = self.data[self.pos:]
        self.pos = len(self.data)
        return out

    def read(self, n=-1):
        if n is None or n < 0:
            return self._to_eof()
        out = self.data[self.pos:self.pos + n]
        self.pos += len(out)
        if not out:
            self.proc.check_blocked(reading=self)
        return out

    def readline(self):
        i = self.data.find("\n", self.pos)
        if i == -1:
            if self.pos >= len(self.data):
                self.proc.check_blocked(reading=self)
                return ""
            return self._to_eof()
        out = self.data[self.pos:i + 1]
        self.pos = i + 1
        return out

    def readlines(self):
        return self._to_eof().splitlines(keepends=True)

    def __iter__(self):
        while True:
            ln = self.readline()
            if not ln:
                return
            yield ln

    def close(self):
        self.closed = True

    def __enter__(self):
        return self

    def __exit__(self, *a):
        self.close()
        return False


class SimProcess:
    def __init__(self, world, completed, want_out, want_err):
        self.w = world
        self.args = completed.args
        self._rc = completed.returncode
        self.returncode = None
        self.pid = 4242
        self.stdout = SimPipe(self, "stdout", completed.stdout) \
            if want_out else None
        self.stderr = SimPipe(self, "stderr", completed.stderr) \
            if want_err else None

    def check_blocked(self, reading=None):
        """would the child be stuck writing to a full pipe nobody reads?"""
        for p in (self.stdout, self.stderr):
            if p is None or p is reading or p.closed:
                continue
            if p.pending() > PIPE_CAPACITY:
                self.w.log("proc", "deadlock", p.name, p.pending())
                raise SimDeadlock(
                    f"child blocked on its full {p.name} pipe "
                    f"({p.pending()} bytes undrained) while the "
                    "interpreter waits for it")

    def wait(self, timeout=None):
        self.check_blocked()
        self.returncode = self._rc
        return self._rc

    def poll(self):
        self.returncode = self._rc
        return self._rc

    def communicate(self, input=None, timeout=None):
        out = self.stdout.data[self.stdout.pos:] if self.stdout else None
        err = self.stderr.data[self.stderr.pos:] if self.stderr else None
        if self.stdout:
            self.stdout.pos = len(self.stdout.data)
        if self.stderr:
            self.stderr.pos = len(self.stderr.data)
        self.returncode = self._rc
        return (out, err)

    def kill(self):
        self.returncode = -9

    terminate = kill

    def __enter__(self):
        return self

    def __exit__(self, *a):
        for p in (self.stdout, self.stderr):
            if p is not None:
                p.close()
        self.wait()
        return False


class ConsoleProxy:
    """stands in for the builtin print() the interpreter uses for its
    console; every call is an event and a fault site"""

    def __init__(self, world):
        self.w = world

    def __call__(self, *args, sep=" ", end="\n", file=None, flush=False):
        w = self.w
        text = sep.join(str(a) for a in args) + end
        f = w.hit("console.write", "console")
        if f is not None:
            raise make_error(f, "console")
        w.log("console", text)


class PkgutilProxy:
    def __init__(self, world):
        self.w = world

    def get_data(self, package, resource):
        import pkgutil
        w = self.w
        w.log("pkg", resource)
        f = w.hit("pkg.read", resource)
        if f is not None:
            raise make_error(f, resource)
        w.in_proxy += 1
        try:
            return pkgutil.get_data(package, resource)
        finally:
            w.in_proxy -= 1

    def __getattr__(self, name):
        import pkgutil
        return getattr(pkgutil, name)


def make_datetime_proxy(world):
    """a module-like object whose datetime.now() reads the simulated clock"""
    import datetime as _dt
    import types

    class _Meta(type):
        def __instancecheck__(cls, obj):
            return isinstance(obj, _dt.datetime)

    class SimDateTime(_dt.datetime, metaclass=_Meta):
        @classmethod
        def now(cls, tz=None):
            world.log("clock", "now")
            return _dt.datetime.fromtimestamp(world.now_ts(), tz)

        @classmethod
        def utcnow(cls):
            world.log("clock", "utcnow")
            return _dt.datetime.utcfromtimestamp(world.now_ts())

        @classmethod
        def today(cls):
            return cls.now()

        @classmethod
        def strptime(cls, s, fmt):
            return _dt.datetime.strptime(s, fmt)

        @classmethod
        def fromtimestamp(cls, ts, tz=None):
            return _dt.datetime.fromtimestamp(ts, tz)

    mod = types.ModuleType("datetime")
    for k in dir(_dt):
        if not k.startswith("__"):
            setattr(mod, k, getattr(_dt, k))
    mod.datetime = SimDateTime
    return mod
