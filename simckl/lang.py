"""A small executable reference model of the Checkerlang subset the
simulated workloads are written in, plus the renderer IR -> source text.

The IR is JSON (lists / ints / strings) so that cases can be stored in replay
files and shrunk structurally.  The reference evaluator implements exactly
the semantics the properties state (C05 handler selection / finally, C10
session persistence and residue-free failure, C11 module binding rules); it
is deliberately tiny and shares no code with the interpreter.

Statements
  ["def", name, E]            def name = E
  ["set", name, E]            name = E
  ["cset", name, op, E]       name op= E           (op in + - *)
  ["app", name, E]            append(name, E)
  ["idxset", name, i, ch]     name[i] = 'ch'        (in-place, strings)
  ["mark", text]              print('text|')        -> one write event
  ["markv", E]                print(E)              -> one write event
  ["defblk", name, blkS]      def name = do ... end (block used as a value)
  ["markto", text, name]      print('text|', name)  -> write to output var
  ["err", V]                  error V               (V: literal value)
  ["erre", E]                 error E
  ["undef"]                   reference to an undefined name
  ["div0"]                    1/0
  ["idx"]                     [1][5]                (index out of range)
  ["badcall"]                 1(2)                  (call of a non-function)
  ["expr", E]                 E
  ["deffn", name, [params], [stmts]]
  ["for", var, E, [stmts]]    for var in E do ... end
  ["forin", var, name, [stmts]]  for var in <input stream variable>
  ["while", cvar, n, [stmts]] bounded while loop on a counter variable
  ["if", E, [stmts], [stmts]|None]
  ["blk", [stmts], [[V|None, [stmts]]...], [stmts]|None]  do/catch/finally
  ["ret", E|None] ["brk"] ["cont"]
  ["req", form, spec, extra]  require
  ["runf", path]              run('path')  (script file; non-secure only)
Expressions
  int | ["f", float] | ["s", str] | ["b", bool] | ["n"] | ["l", [E]] |
  ["set", [E]] | ["map", [[E, E]]] | ["v", name] |
  ["op", o, E, E] (o in + - * == != < <= > >=) | ["call", name, [E]] |
  ["mcall", obj, member, [E]] | ["mget", obj, member] | ["len", E] |
  ["lit", V]
"""

# ------------------------------------------------------------------------
# model values

class MSet:
    def __init__(self, items):
        self.items = []
        for x in items:
            if not any(veq(x, y) for y in self.items):
                self.items.append(x)


class MMap:
    def __init__(self, pairs):
        self.pairs = []
        for k, v in pairs:
            for i, (k2, _) in enumerate(self.pairs):
                if veq(k, k2):
                    self.pairs[i] = (k2, v)
                    break
            else:
                self.pairs.append((k, v))


class Fn:
    def __init__(self, name, params, body, scope):
        self.name = name
        self.params = params
        self.body = body
        self.scope = scope


class ModObj:
    def __init__(self, mod, members):
        self.mod = mod
        self.members = members


class Stream:
    """an output or input stream value living in a variable"""
    def __init__(self, name, kind):
        self.name = name
        self.kind = kind


def is_num(x):
    return isinstance(x, (int, float)) and not isinstance(x, bool)


def kind_of(x):
    if isinstance(x, bool):
        return "boolean"
    if is_num(x):
        return "num"
    if isinstance(x, str):
        return "string"
    if x is None:
        return "null"
    if isinstance(x, list):
        return "list"
    if isinstance(x, MSet):
        return "set"
    if isinstance(x, MMap):
        return "map"
    return "other"


def veq(a, b):
    """equality as the language defines it: numeric across int/decimal,
    structural for collections, never across kinds"""
    ka, kb = kind_of(a), kind_of(b)
    if ka != kb:
        return False
    if ka in ("boolean", "num", "string"):
        return a == b
    if ka == "null":
        return True
    if ka == "list":
        return len(a) == len(b) and all(veq(x, y) for x, y in zip(a, b))
    if ka == "set":
        return (len(a.items) == len(b.items)
                and all(any(veq(x, y) for y in b.items) for x in a.items))
    if ka == "map":
        if len(a.pairs) != len(b.pairs):
            return False
        for k, v in a.pairs:
            for k2, v2 in b.pairs:
                if veq(k, k2):
                    if not veq(v, v2):
                        return False
                    break
            else:
                return False
        return True
    return a is b


def esc(s):
    return (s.replace("\\", "\\\\").replace("'", "\\'").replace("\r", "\\r")
            .replace("\n", "\\n").replace("\t", "\\t"))


def vstr(v):
    """canonical rendering (what str(value) gives in the interpreter)"""
    if isinstance(v, bool):
        return "TRUE" if v else "FALSE"
    if isinstance(v, int):
        return str(v)
    if isinstance(v, float):
        r = repr(v)
        return r if "." in r else r + ".0"
    if isinstance(v, str):
        return "'" + esc(v) + "'"
    if v is None:
        return "NULL"
    if isinstance(v, list):
        return "[" + ", ".join(vstr(x) for x in v) + "]"
    if isinstance(v, MSet):
        # only generated with elements whose order is unambiguous
        return "<<" + ", ".join(vstr(x) for x in sorted_items(v.items)) + ">>"
    if isinstance(v, MMap):
        ks = sorted_items([k for k, _ in v.pairs])
        out = []
        for k in ks:
            for k2, val in v.pairs:
                if veq(k, k2):
                    out.append(vstr(k) + " => " + vstr(val))
        return "<<<" + ", ".join(out) + ">>>"
    if isinstance(v, Fn):
        return "<#" + v.name + ">"
    if isinstance(v, Stream):
        return "<!output-stream>" if v.kind == "out" else "<!input-stream>"
    return "<?>"


def sorted_items(items):
    if all(is_num(x) for x in items):
        return sorted(items)
    return sorted(items, key=vstr)


def as_string(v):
    """what print() writes for a value"""
    if isinstance(v, str):
        return v
    if v is None:
        return ""
    return vstr(v)


def lit_value(V):
    """JSON literal description -> model value"""
    if isinstance(V, bool) or V is None or isinstance(V, (int, str)):
        return V
    if isinstance(V, float):
        return V
    tag = V[0]
    if tag == "f":
        return float(V[1])
    if tag == "l":
        return [lit_value(x) for x in V[1]]
    if tag == "set":
        return MSet([lit_value(x) for x in V[1]])
    if tag == "map":
        return MMap([(lit_value(k), lit_value(v)) for k, v in V[1]])
    raise ValueError(V)


def lit_src(V):
    return vstr(lit_value(V))


# ------------------------------------------------------------------------
# rendering IR -> source

def rE(E):
    if isinstance(E, bool):
        return "TRUE" if E else "FALSE"
    if isinstance(E, int):
        return str(E) if E >= 0 else "(0 - " + str(-E) + ")"
    t = E[0]
    if t == "f":
        return vstr(float(E[1]))
    if t == "s":
        return "'" + esc(E[1]) + "'"
    if t == "b":
        return "TRUE" if E[1] else "FALSE"
    if t == "n":
        return "NULL"
    if t == "l":
        return "[" + ", ".join(rE(x) for x in E[1]) + "]"
    if t == "set":
        return "<<" + ", ".join(rE(x) for x in E[1]) + ">>"
    if t == "map":
        return "<<<" + ", ".join(rE(k) + " => " + rE(v)
                                 for k, v in E[1]) + ">>>"
    if t == "v":
        return E[1]
    if t == "op":
        return "(" + rE(E[2]) + " " + E[1] + " " + rE(E[3]) + ")"
    if t == "call":
        return E[1] + "(" + ", ".join(rE(x) for x in E[2]) + ")"
    if t == "mcall":
        return E[1] + "->" + E[2] + "(" + ", ".join(rE(x)
                                                    for x in E[3]) + ")"
    if t == "mget":
        return E[1] + "->" + E[2]
    if t == "len":
        return "length(" + rE(E[1]) + ")"
    if t == "lit":
        return lit_src(E[1])
    if t == "lam":
        return "fn(x) x"
    if t == "base":
        return E[1]
    raise ValueError(E)


def rS(S):
    t = S[0]
    if t == "def":
        return f"def {S[1]} = {rE(S[2])}"
    if t == "set":
        return f"{S[1]} = {rE(S[2])}"
    if t == "cset":
        return f"{S[1]} {S[2]}= {rE(S[3])}"
    if t == "app":
        return f"append({S[1]}, {rE(S[2])})"
    if t == "idxset":
        return f"{S[1]}[{S[2]}] = '{esc(S[3])}'"
    if t == "mark":
        return f"print('{esc(S[1])}|')"
    if t == "markto":
        return f"print('{esc(S[1])}|', {S[2]})"
    if t == "markv":
        return f"print({rE(S[1])})"
    if t == "defblk":
        return f"def {S[1]} = " + rS(S[2])
    if t == "err":
        return "error " + lit_src(S[1])
    if t == "erre":
        return "error " + rE(S[1])
    if t == "undef":
        return "undefined_name_zz"
    if t == "div0":
        return "1 / 0"
    if t == "idx":
        return "[1][5]"
    if t == "badcall":
        return "undefined_fn_zz(2)"
    if t == "expr":
        return rE(S[1])
    if t == "deffn":
        return (f"def {S[1]}({', '.join(S[2])}) do " + rB(S[3]) + " end")
    if t == "for":
        return f"for {S[1]} in {rE(S[2])} do " + rB(S[3]) + " end"
    if t == "forin":
        return f"for {S[1]} in {S[2]} do " + rB(S[3]) + " end"
    if t == "while":
        return (f"while {S[1]} < {S[2]} do {S[1]} += 1; " + rB(S[3])
                + " end")
    if t == "if":
        s = f"if {rE(S[1])} then do " + rB(S[2]) + " end"
        if S[3] is not None:
            s += " else do " + rB(S[3]) + " end"
        return s
    if t == "blk":
        s = "do " + rB(S[1])
        for V, h in S[2]:
            s += " catch " + ("all" if V is None else
                              rE(V["e"]) if "e" in V else lit_src(V["v"]))
            s += " do " + rB(h) + " end;"
        if S[3] is not None:
            s += " finally " + rB(S[3])
        return s + " end"
    if t == "ret":
        return "return" if S[1] is None else "return " + rE(S[1])
    if t == "brk":
        return "break"
    if t == "cont":
        return "continue"
    if t == "bind":
        return f"bind_native('{S[1]}')"
    if t == "runf":
        return f"run('{S[1]}')"
    if t == "req":
        form, spec, extra = S[1], S[2], S[3]
        s = "require " + (spec["id"] if "id" in spec
                          else "'" + spec["str"] + "'")
        if form == "as":
            s += " as " + extra
        elif form == "unq":
            s += " unqualified"
        elif form == "imp":
            s += " import [" + ", ".join(
                a if a == b else f"{a} as {b}" for a, b in extra) + "]"
        return s
    if t == "raw":
        return S[1]
    raise ValueError(S)


def rB(stmts):
    if not stmts:
        return "TRUE;"      # what an empty statement list evaluates to
    return "; ".join(rS(s) for s in stmts) + ";"


def render_command(stmts):
    return "; ".join(rS(s) for s in stmts)


def render_module(stmts):
    """one top-level statement per line (torn reads cut at line ends)"""
    return "".join(rS(s) + ";\n" for s in stmts)


# ------------------------------------------------------------------------
# reference evaluator

ERROR = "ERROR"


class Err(Exception):
    """the language's runtime error carrying a value"""
    def __init__(self, value, why=""):
        self.value = value
        self.why = why


class SynErr(Exception):
    pass


class HostErr(Err):
    """an injected I/O failure of the module store surfaces.  Since repair
    2c16005 it is the runtime error 'ERROR' (so a catch inside a module that
    is being loaded can intercept it); when it reaches the top level the
    comparison still accepts any failure class."""

    def __init__(self, why=""):
        Err.__init__(self, ERROR, why)


class Unspec(Exception):
    """the statement of the property leaves the outcome open here"""


class Ctl:
    def __init__(self, kind, value=None):
        self.kind = kind
        self.value = value


class Scope:
    def __init__(self, parent=None, label=""):
        self.vars = {}
        self.parent = parent
        self.label = label
        self.unspec = set()
        self.imported = set()   # names bound here by a require

    def lookup(self, name):
        s = self
        while s is not None:
            if name in s.unspec:
                raise Unspec(name)
            if name in s.vars:
                return s
            s = s.parent
        return None

    def names(self):
        out = set()
        s = self
        while s is not None:
            out |= set(s.vars)
            s = s.parent
        return out


UNSPEC = object()


class Machine:
    """one interpreter instance as the properties describe it"""

    def __init__(self, store, name="A"):
        self.name = name
        self.store = store          # ModelStore (shared between instances)
        self.session = Scope(None, "session")
        self.loaded = {}            # module id -> Scope
        self.stack = []
        self.events = []            # expected stream events of current op
        self.io = None              # fault mirror, set per op
        self.effects = 0            # atomic effects applied in current op
        self.snapshots = None       # when not None: record after each effect
        self.streams = {}
        self.loads = []             # ledger of completed loads
        self.raised = 0             # errors raised (planned or injected)
        self.stats = {}             # reach probes
        self.ctx = []               # 'handler' / 'finally' nesting
        self.blockdepth = 0
        self.active = []            # names of the functions being executed
        self.nonsecure = False      # does this interpreter have `run`?

    def stat(self, key):
        self.stats[key] = self.stats.get(key, 0) + 1

    # -- effects -----------------------------------------------------------
    def effect(self):
        self.effects += 1
        if self.snapshots is not None:
            self.snapshots.append(self.snapshot())

    def snapshot(self):
        return (self.effects, len(self.events), freeze_scope(self.session),
                tuple(sorted(self.loaded)))

    def emit(self, stream, text):
        f = self.io.hit("out.write", stream) if self.io else None
        if f is not None:
            self.raised += 1
            if "finally" in self.ctx:
                self.stat("fault_in_finally")
            if "handler" in self.ctx:
                self.stat("fault_in_handler")
            raise Err(ERROR, "write failed")
        self.events.append((stream, text))
        self.effect()

    # -- statements -------------------------------------------------------
    def run_block(self, stmts, scope):
        result = True
        for s in stmts:
            result = self.stmt(s, scope)
            if isinstance(result, Ctl):
                break
        return result

    def stmt(self, S, scope):
        t = S[0]
        if t == "def":
            v = self.ev(S[2], scope)
            scope.vars[S[1]] = v
            scope.unspec.discard(S[1])
            self.effect()
            return v
        if t == "set":
            tgt = scope.lookup(S[1])
            if tgt is None:
                raise Err(ERROR, "not defined")
            v = self.ev(S[2], scope)
            tgt.vars[S[1]] = v
            self.effect()
            return v
        if t == "cset":
            tgt = scope.lookup(S[1])
            if tgt is None:
                raise Err(ERROR, "not defined")
            v = self.binop(S[2], tgt.vars[S[1]], self.ev(S[3], scope))
            tgt.vars[S[1]] = v
            self.effect()
            return v
        if t == "app":
            tgt = scope.lookup(S[1])
            if tgt is None:
                raise Err(ERROR, "not defined")
            v = self.ev(S[2], scope)
            lst = tgt.vars[S[1]]
            if not isinstance(lst, list):
                raise Unspec("append to non-list")
            lst.append(v)
            self.effect()
            return lst
        if t == "idxset":
            tgt = scope.lookup(S[1])
            if tgt is None:
                raise Err(ERROR, "not defined")
            cur = tgt.vars[S[1]]
            if not isinstance(cur, str):
                raise Unspec("index assignment on non-string")
            if not (0 <= S[2] < len(cur)):
                raise Err(ERROR, "index out of bounds")
            tgt.vars[S[1]] = cur[:S[2]] + S[3] + cur[S[2] + 1:]
            self.effect()
            return tgt.vars[S[1]]
        if t == "mark":
            self.emit("stdout", S[1] + "|")
            return None
        if t == "markto":
            tgt = scope.lookup(S[2])
            if tgt is None:
                raise Err(ERROR, "not defined")
            st = tgt.vars[S[2]]
            self.emit(st.name, S[1] + "|")
            return None
        if t == "markv":
            self.emit("stdout", as_string(self.ev(S[1], scope)))
            return None
        if t == "defblk":
            v = self.block(S[2], scope)
            if isinstance(v, Ctl):
                raise Unspec("control value bound by def")
            scope.vars[S[1]] = v
            self.effect()
            return v
        if t == "err":
            self.raised += 1
            raise Err(lit_value(S[1]), "error stmt")
        if t == "erre":
            self.raised += 1
            raise Err(self.ev(S[1], scope), "error stmt")
        if t in ("undef", "div0", "idx", "badcall"):
            self.raised += 1
            raise Err(ERROR, t)
        if t == "expr":
            return self.ev(S[1], scope)
        if t == "deffn":
            fn = Fn(S[1], S[2], S[3], scope)
            scope.vars[S[1]] = fn
            scope.unspec.discard(S[1])
            self.effect()
            return fn
        if t == "for":
            seq = self.ev(S[2], scope)
            if not isinstance(seq, list):
                raise Unspec("for over non-list")
            result = True
            for item in seq:
                scope.vars[S[1]] = item
                result = self.run_block(S[3], scope)
                if isinstance(result, Ctl):
                    if result.kind == "brk":
                        result = True
                        break
                    if result.kind == "cont":
                        result = True
                        continue
                    break
            if seq:
                # the loop variable is removed after a completed loop;
                # after an aborted loop its status is unspecified
                scope.vars.pop(S[1], None)
            return result
        if t == "forin":
            return self.forin(S, scope)
        if t == "while":
            tgt = scope.lookup(S[1])
            if tgt is None:
                raise Err(ERROR, "not defined")
            result = True
            while tgt.vars[S[1]] < S[2]:
                tgt.vars[S[1]] += 1
                self.effect()
                result = self.run_block(S[3], scope)
                if isinstance(result, Ctl):
                    if result.kind == "brk":
                        result = True
                        break
                    if result.kind == "cont":
                        result = True
                        continue
                    break
            return result
        if t == "if":
            c = self.ev(S[1], scope)
            if not isinstance(c, bool):
                raise Err(ERROR, "not boolean")
            if c:
                return self.run_block(S[2], scope)
            if S[3] is not None:
                return self.run_block(S[3], scope)
            return True
        if t == "blk":
            return self.block(S, scope)
        if t == "ret":
            if S[1] is not None and isinstance(S[1], list) and \
                    S[1][0] == "call":
                try:
                    return Ctl("ret", self.ev(S[1], scope))
                except Err:
                    if self.blockdepth:
                        self.stat("return_of_call_raised_in_block")
                    raise
            return Ctl("ret", None if S[1] is None
                       else self.ev(S[1], scope))
        if t == "brk":
            return Ctl("brk")
        if t == "cont":
            return Ctl("cont")
        if t == "req":
            return self.require(S, scope)
        if t == "bind":
            # bind_native of an OS-touching native: it becomes defined in
            # a non-secure interpreter and in no other
            if self.nonsecure:
                scope.vars[S[1]] = Fn(S[1], ["filename"], [["ret", 0]],
                                      scope)
                scope.unspec.discard(S[1])
                self.effect()
            return None
        if t == "runf":
            # the script runner exists in non-secure interpreters only and
            # evaluates the file in the session of the interpreter that
            # owns it, wherever it is called from
            if not self.nonsecure:
                raise Err(ERROR, "run is not defined")
            entry = self.store.files.get(S[1])
            if entry is None:
                raise Err(ERROR, "file not found")
            if "raw" in entry:
                raise Err(ERROR, "syntax error in script")
            self.stat("script_file_run")
            r = self.run_block(entry["ir"], self.session)
            if isinstance(r, Ctl):
                return r.value if r.kind == "ret" else None
            return r
        if t == "raw":
            raise SynErr()
        raise ValueError(S)

    def block(self, S, scope):
        """do body catch... finally ... end, as C05 states it"""
        body, catches, fin = S[1], S[2], S[3]
        counted = bool(catches) or fin is not None
        if counted:
            self.blockdepth += 1
        try:
            return self._block(body, catches, fin, scope)
        finally:
            if counted:
                self.blockdepth -= 1

    def _block(self, body, catches, fin, scope):
        try:
            try:
                result = self.run_block(body, scope)
            except Err as e:
                for V, handler in catches:
                    # the catch value is evaluated when an error arrives,
                    # every time (it may be an expression over variables)
                    cv = None if V is None else (
                        self.ev(V["e"], scope) if "e" in V
                        else lit_value(V["v"]))
                    if V is not None and "e" in V:
                        self.stat("catch_value_expression")
                    if V is None or veq(e.value, cv):
                        if V is not None and kind_of(e.value) == "num" and \
                                type(e.value) is not type(cv):
                            self.stat("handler_matched_numeric")
                        # handler result becomes the value of the block
                        self.ctx.append("handler")
                        try:
                            result = self.run_block(handler, scope)
                        except Err:
                            self.stat("handler_raises")
                            raise
                        finally:
                            self.ctx.pop()
                        break
                    self.stat("handler_rejected_by_value")
                else:
                    raise
        finally:
            if fin is not None:
                # exactly once, whatever way the block is left; a failure
                # inside it replaces whatever was in flight
                self.ctx.append("finally")
                try:
                    # every statement of the finally part runs; a return /
                    # break / continue inside it neither ends the finally
                    # part nor replaces what is in flight
                    for st in fin:
                        r2 = self.stmt(st, scope)
                        if isinstance(r2, Ctl):
                            self.stat("control_statement_in_finally")
                except Err:
                    self.stat("finally_raises")
                    raise
                finally:
                    self.ctx.pop()
        if fin is not None and isinstance(result, Ctl):
            self.stat("finally_after_" + {"brk": "break", "cont": "break",
                                          "ret": "return"}[result.kind])
        return result

    def forin(self, S, scope):
        tgt = scope.lookup(S[2])
        if tgt is None:
            raise Err(ERROR, "not defined")
        st = tgt.vars[S[2]]
        result = True
        while True:
            line = self.readline(st)
            if not line:
                break
            scope.vars[S[1]] = line
            try:
                result = self.run_block(S[3], scope)
            except Err:
                self.stat("stream_loop_body_error")
                raise
            if isinstance(result, Ctl):
                if result.kind == "brk":
                    return True
                if result.kind == "cont":
                    result = True
                    continue
                return result
        scope.vars.pop(S[1], None)
        return result

    def readline(self, st):
        f = self.io.hit("in.read", st.name) if self.io else None
        src = self.streams[st.name]
        if f is not None:
            if f.get("err") == "EOF":
                src["pos"] = len(src["lines"])
                return None
            raise Err(ERROR, "read failed")
        if src["pos"] >= len(src["lines"]):
            return None
        line = src["lines"][src["pos"]]
        src["pos"] += 1
        return line

    # -- expressions --------------------------------------------------------
    def ev(self, E, scope):
        if isinstance(E, (bool, int)):
            return E
        t = E[0]
        if t == "f":
            return float(E[1])
        if t == "s":
            return E[1]
        if t == "b":
            return bool(E[1])
        if t == "n":
            return None
        if t == "l":
            return [self.ev(x, scope) for x in E[1]]
        if t == "set":
            return MSet([self.ev(x, scope) for x in E[1]])
        if t == "map":
            return MMap([(self.ev(k, scope), self.ev(v, scope))
                         for k, v in E[1]])
        if t == "lit":
            return lit_value(E[1])
        if t == "lam":
            # every evaluation yields a new function value; two function
            # values are equal only if they are the same object
            return Fn("lambda", ["x"], [["ret", ["v", "x"]]], scope)
        if t == "v":
            s = scope.lookup(E[1])
            if s is None:
                raise Err(ERROR, "undefined " + E[1])
            return s.vars[E[1]]
        if t == "base":
            # a stream object every base environment defines (stdout /
            # stdin): a value without a string conversion
            return Stream(E[1], "out" if E[1] == "stdout" else "in")
        if t == "op":
            return self.binop(E[1], self.ev(E[2], scope),
                              self.ev(E[3], scope))
        if t == "len":
            v = self.ev(E[1], scope)
            return len(v)
        if t == "call":
            s = scope.lookup(E[1])
            if s is None:
                raise Err(ERROR, "undefined " + E[1])
            fn = s.vars[E[1]]
            if not isinstance(fn, Fn):
                raise Err(ERROR, "not a function")
            args = [self.ev(x, scope) for x in E[2]]
            return self.call(fn, args)
        if t == "mget":
            s = scope.lookup(E[1])
            if s is None:
                raise Err(ERROR, "undefined " + E[1])
            obj = s.vars[E[1]]
            if not isinstance(obj, ModObj):
                raise Unspec("deref of non-module")
            if E[2].startswith("_"):
                self.stat("private_member_attempt")
            if E[2] not in obj.members:
                return None        # object member lookup yields NULL
            if obj.members[E[2]] is UNSPEC:
                raise Unspec("re-exported member")
            return obj.members[E[2]]
        if t == "mcall":
            s = scope.lookup(E[1])
            if s is None:
                raise Err(ERROR, "undefined " + E[1])
            obj = s.vars[E[1]]
            if not isinstance(obj, ModObj):
                raise Unspec("deref of non-module")
            if E[2].startswith("_"):
                self.stat("private_member_attempt")
            if E[2] not in obj.members:
                raise Err(ERROR, "member not found")
            fn = obj.members[E[2]]
            if fn is UNSPEC:
                raise Unspec("re-exported member")
            if not isinstance(fn, Fn):
                raise Err(ERROR, "not a function")
            args = [self.ev(x, scope) for x in E[3]]
            return self.call(fn, args)
        raise ValueError(E)

    def binop(self, o, a, b):
        if o == "+":
            if isinstance(a, list) and isinstance(b, list):
                return a + b
            if isinstance(a, str) and isinstance(b, str):
                return a + b
            if is_num(a) and is_num(b):
                return a + b
            raise Unspec("+ on mixed kinds")
        if o in ("-", "*"):
            if is_num(a) and is_num(b):
                return a - b if o == "-" else a * b
            raise Unspec(o)
        if o == "==":
            return veq(a, b)
        if o == "!=":
            return not veq(a, b)
        if is_num(a) and is_num(b):
            return {"<": a < b, "<=": a <= b, ">": a > b, ">=": a >= b}[o]
        raise Unspec("comparison across kinds")

    def call(self, fn, args):
        if len(args) != len(fn.params):
            raise Unspec("arity")
        if fn.name in self.active:
            self.stat("recursive_call")
        self.active.append(fn.name)
        try:
            return self._call(fn, args)
        finally:
            self.active.pop()

    def _call(self, fn, args):
        local = Scope(fn.scope, "call:" + fn.name)
        for p, a in zip(fn.params, args):
            local.vars[p] = a
        r = self.run_block(fn.body, local)
        if isinstance(r, Ctl):
            if r.kind == "ret":
                return r.value
            raise Err(ERROR, "break/continue outside loop")
        return r

    # -- modules ---------------------------------------------------------
    def require(self, S, scope):
        form, spec, extra = S[1], S[2], S[3]
        if "id" in spec:
            mid = spec["id"]
            s = scope.lookup(mid)
            if s is not None:
                v = s.vars[mid]
                if not isinstance(v, ModObj):
                    if not isinstance(v, str):
                        raise Err(ERROR, "bad modulespec")
                    mid = v
                    self.stat("modulespec_from_string_variable")
        else:
            mid = spec["str"]
            self.stat("modulespec_string_literal")
        # the module identifier is the last path component without .ckl
        mid = mid.split("/")[-1]
        if mid.endswith(".ckl"):
            mid = mid[:-4]
        if scope.label.startswith("call:"):
            self.stat("require_inside_function")
        if scope.label.startswith("mod:"):
            self.stat("require_inside_module")
        mscope = self.load(mid, scope)
        public = [n for n in mscope.vars if not n.startswith("_")]
        self.stat("form_" + form)

        def maybe(n):
            """names a module got from its own imports: whether they count
            as its public definitions is left open by the statement"""
            return n in mscope.imported or n in mscope.unspec

        if form == "unq":
            for n in list(public) + sorted(mscope.unspec):
                v = mscope.vars.get(n)
                if isinstance(v, ModObj) or maybe(n):
                    same = (n in scope.vars and n not in scope.unspec
                            and scope.vars[n] is v and v is not None
                            and not isinstance(v, ModObj))
                    # (two module objects of one module are not
                    # interchangeable: each is a snapshot of the module's
                    # public data at the time of its require)
                    if not same:
                        scope.vars.pop(n, None)
                        scope.unspec.add(n)
                    continue
                scope.vars[n] = v
                scope.unspec.discard(n)
                scope.imported.add(n)
        elif form == "imp":
            for a, b in extra:
                if a.startswith("_"):
                    self.stat("private_import_attempt")
                    continue
                if a in mscope.unspec or (a in mscope.vars and (
                        maybe(a) or isinstance(mscope.vars[a], ModObj))):
                    scope.vars.pop(b, None)
                    scope.unspec.add(b)
                    continue
                if a not in mscope.vars:
                    continue
                scope.vars[b] = mscope.vars[a]
                scope.unspec.discard(b)
                scope.imported.add(b)
        else:
            name = extra if form == "as" else mid
            members = {}
            for n in public:
                v = mscope.vars[n]
                if isinstance(v, ModObj):
                    continue
                members[n] = UNSPEC if maybe(n) else v
            for n in mscope.unspec:
                members[n] = UNSPEC
            scope.vars[name] = ModObj(mid, members)
            scope.unspec.discard(name)
            scope.imported.add(name)
        self.effect()
        return None

    def load(self, mid, scope):
        if mid in self.stack:
            self.stat("cycle_reported")
            raise Err(ERROR, "circular")
        self.stack.append(mid)
        try:
            if mid in self.loaded:
                self.stat("cached_module_used")
                return self.loaded[mid]
            stmts = self.store.fetch(self, mid, scope)
            mscope = Scope(None, "mod:" + mid)
            r = self.run_block(stmts, mscope)
            if isinstance(r, Ctl):
                raise Unspec("control flow at module top level")
            self.loaded[mid] = mscope
            self.loads.append(mid)
            if len(self.stack) > 1:
                self.stat("nested_load_completed")
            return mscope
        finally:
            self.stack.pop()


def freeze(v, seen=None):
    if isinstance(v, list):
        return ("l",) + tuple(freeze(x) for x in v)
    if isinstance(v, (Fn,)):
        return ("fn", v.name)
    if isinstance(v, ModObj):
        return ("mod", v.mod)
    if isinstance(v, (MSet, MMap)):
        return ("c", vstr(v))
    if isinstance(v, Stream):
        return ("st", v.name)
    return ("a", repr(v))


def freeze_scope(scope):
    return tuple(sorted((k, freeze(v)) for k, v in scope.vars.items()))


class FaultMirror:
    """the same matching rule as World.hit, on the model's side"""

    def __init__(self, plan, persistent):
        self.plan = [dict(f) for f in plan if not f.get("persist")]
        self.persistent = persistent
        self.counts = {}

    def hit(self, site, path=None):
        n = self.counts.get(site, 0)
        self.counts[site] = n + 1
        for f in self.plan:
            if f["site"] != site or f.get("_done"):
                continue
            if "nth" in f and f["nth"] != n:
                continue
            if "path" in f and (path is None or f["path"] not in path):
                continue
            f["_done"] = True
            return f
        for f in self.persistent:
            if f["site"] != site:
                continue
            if "path" in f and (path is None or f["path"] not in path):
                continue
            return f
        return None


class ModelStore:
    """the module store as the model sees it: module id -> IR statements,
    per location; mirrors the documented search order (bundled, the user's
    ~/.ckl/modules, then the configured module path, first hit wins)"""

    def __init__(self, files, home, paths, path_scope):
        self.files = files          # virtual path -> {"ir": [...]} | {"raw"}
        self.home = home
        self.paths = paths          # list of virtual directories
        self.path_scope = path_scope  # "base" | "session" | None

    def fetch(self, m, mid, scope):
        io = m.io
        fname = mid.split("/")[-1]
        if not fname.endswith(".ckl"):
            fname += ".ckl"
        f = io.hit("pkg.read", "modules/" + fname.lower()) if io else None
        if f is not None:
            raise HostErr("pkg.read")
        cands = [self.home + "/" + fname]
        visible = (self.path_scope == "base"
                   or (self.path_scope == "session"
                       and scope_is_session_side(scope)))
        found = None
        p = cands[0]
        f = io.hit("fs.stat", p) if io else None
        if f is None and p in self.files:
            found = p
        elif visible:
            for d in self.paths:
                p = d + "/" + fname
                f = io.hit("fs.stat", p) if io else None
                if f is None and p in self.files:
                    found = p
                    break
        if found is None:
            m.stat("module_not_found")
            raise Err(ERROR, "module not found")
        if sum(1 for c in [self.home] + (list(self.paths) if visible
                                         else [])
               if c + "/" + fname in self.files) > 1:
            m.stat("shadowed_module_resolved")
        f = io.hit("fs.open", found) if io else None
        if f is not None:
            raise HostErr("open")
        entry = self.files[found]
        f = io.hit("fs.read", found) if io else None
        lines = None
        if f is not None:
            err = f.get("err", "EIO")
            if err.startswith("SHORT"):
                k = int(err.split(":")[1]) if ":" in err else 1
                lines = k
                m.stat("torn_read")
            else:
                raise HostErr("read")
        if "undecodable" in entry:
            # a module file that cannot be decoded is an unreadable module:
            # the runtime error 'ERROR' (repair 2c16005), catchable
            m.stat("undecodable_module_file")
            raise Err(ERROR, "module file cannot be decoded")
        if "raw" in entry:
            if lines is not None:
                raise Unspec("torn read of a raw module")
            raise SynErr()
        ir = entry["ir"]
        return ir if lines is None else ir[:lines]


def scope_is_session_side(scope):
    s = scope
    while s is not None:
        if s.label == "session":
            return True
        s = s.parent
    return False


def walk_stmts(stmts):
    """every statement of an IR tree, depth first"""
    for s in stmts:
        yield s
        t = s[0]
        if t in ("deffn", "for", "forin", "while"):
            yield from walk_stmts(s[3])
        elif t == "if":
            yield from walk_stmts(s[2])
            if s[3] is not None:
                yield from walk_stmts(s[3])
        elif t == "defblk":
            yield from walk_stmts([s[2]])
        elif t == "blk":
            yield from walk_stmts(s[1])
            for _, h in s[2]:
                yield from walk_stmts(h)
            if s[3] is not None:
                yield from walk_stmts(s[3])


def contains_raw(stmts):
    return any(s[0] == "raw" for s in walk_stmts(stmts))
