"""C13 (partial) -- only language-level errors escape: the OS-facing slice.

Seeded stateful sessions over the built-ins whose outcome depends on the
outside world (streams, files, directories, processes, environment, clock)
in a non-secure legacy interpreter, against the simulated OS with faults
landing inside operations.  Oracle: every operation terminates with a value
or the language's runtime error carrying a language value; wrapped in
`catch all` it never raises; no host exception leaves interpret; the session
stays usable.  The exhaustive value-pool sweep of pure built-ins the
quantifier asks for is input enumeration and is NOT covered here.
See DESIGN.md section 4.6.
"""
from ..session import Sim, fingerprint
from ..world import SimIn

ID = "C13"
TIERS = {
    "quick": {"runs": 5000, "wall_s": 150, "chunk": 50, "det": 40,
              "det_fresh": 12, "min_s": 40},
    "thorough": {"runs": 300000, "wall_s": 2400, "chunk": 200, "det": 200,
                 "det_fresh": 40, "min_s": 120},
}
RULE = ("each evaluation is one seeded session of 5-40 operations over the "
        "OS-facing built-ins (file_input/file_output/read/readln/read_all/"
        "process_lines/for-over-input/print/println/printf/close/str_input/"
        "str_output/get_output_string/file_copy/file_move/file_delete/"
        "file_exists/file_info/list_dir/make_dir/execute/run/read_file/"
        "which/get_env/date/now/timestamp) in a non-secure legacy "
        "interpreter on a simulated OS whose paths are text file / empty / "
        "non-UTF-8 / directory / missing / missing parent / program (also one "
        "that floods stderr or stdout) / symbolic links (to a file, to a "
        "directory, dangling, chain, cycle, a directory linking to itself), "
        "with handles reused after close and after failures, use-remove-use "
        "scenarios, results consumed by further operations, half of the "
        "operations wrapped in catch-all, and faults (open/read/write/"
        "flush/close/metadata/process/stream/console/clock) landing on the "
        "k-th system call inside an operation; distinct = distinct "
        "(operation, state of its path, fault kind fired inside it) triples; "
        "non-trivial = the operation touched the simulated OS or a stream")
REAL = ["ckl.functions (all OS-facing built-ins)", "ckl.values (FileInput, "
        "FileOutput, StringInput/Output, ValueInput/Output)", "ckl.nodes",
        "bundled modules io.ckl / os.ckl", "ckl.interpreter.Interpreter "
        "(non-secure, legacy)"]
STUBBED = ["file system (real-backed virtual FS)", "process table "
           "(subprocess proxy; no real process is started)",
           "environment variables", "stdin/stdout/console", "clock"]
ASSUMPTIONS = [
    "scope: OS-facing built-ins only; the |pool|^arity sweep of pure "
    "operators and functions is not covered (see DESIGN.md 4.6)",
    "nothing is asserted about which runtime error or message an operation "
    "gives, nor about file contents",
    "the sandbox runs as root, so permission failures are injected as "
    "EACCES faults instead of being produced by file modes",
]
REQUIRED_PROBES = {
    "quick": ["op_failed_then_next_ok", "wrapped_caught", "fault_inside_op",
              "handle_reused_after_close", "callback_raised",
              "process_spawned", "clock_jumped", "symlink_touched"],
}
REQUIRED_PROBES["thorough"] = REQUIRED_PROBES["quick"]

D = "/sim/d"
PATHS = {
    "text": D + "/a.txt", "empty": D + "/empty.txt", "bin": D + "/bin.dat",
    "dir": D + "/sub", "inner": D + "/sub/in.txt", "missing": D + "/nope.txt",
    "noparent": "/sim/nodir/x.txt", "prog": "/sim/bin/tool",
    "failprog": "/sim/bin/fail", "noisy": "/sim/bin/noisy",
    "bigout": "/sim/bin/bigout", "script": D + "/ok.ckl",
    "badscript": D + "/bad.ckl", "errscript": D + "/err.ckl",
    "new": D + "/new.txt", "newdir": D + "/made", "deep": D + "/x/y/z",
    "rel": "rel.txt", "dirslash": D + "/sub/", "root": D,
    "loop": D + "/loop", "dangling": D + "/dangling",
    "linkfile": D + "/linkfile", "linkdir": D + "/linkdir",
    "linkcycle": D + "/cyc1", "selflink": D + "/selfl",
    "linkchain": D + "/chain1",
}
STATE = {"text": "file", "empty": "file", "bin": "file", "dir": "dir",
         "inner": "file", "missing": "missing", "noparent": "missing",
         "prog": "file", "failprog": "file", "noisy": "file",
         "bigout": "file", "script": "file",
         "badscript": "file", "errscript": "file", "new": "missing",
         "newdir": "missing", "deep": "missing", "rel": "missing",
         "dirslash": "dir", "root": "dir", "loop": "dir-with-link-cycle",
         "dangling": "dangling-link", "linkfile": "link-to-file",
         "linkdir": "link-to-dir", "linkcycle": "link-cycle",
         "selflink": "link-to-itself", "linkchain": "link-chain"}


_W = ["fs.write", "fs.flush", "out.write", "out.flush", "console.write"]
_M = ["fs.meta", "fs.stat", "fs.meta"]
SITES_FOR = {
    "file_input": ["fs.open", "fs.read", "fs.close"],
    "file_output": ["fs.open"],
    "read": ["in.read", "in.read", "out.flush", "out.write"],
    "readln": ["in.read", "in.read", "out.flush", "out.write"],
    "read_all": ["in.read", "in.read", "out.flush", "out.write"],
    "process_lines": ["in.read", "out.write"],
    "for_input": ["in.read", "out.write"],
    "print": _W, "println": _W, "printf": ["out.write"],
    "close": ["fs.close", "out.close"],
    "file_copy": _M + ["fs.open"], "file_move": _M, "file_delete": _M,
    "file_exists": ["fs.stat"], "file_info": ["fs.stat"],
    "list_dir": _M, "make_dir": _M, "which": _M,
    "execute": ["proc.run", "proc.run", "fs.open", "fs.write", "fs.close",
                "console.write", "out.write", "out.flush"],
    "run": ["fs.open", "fs.read", "fs.close"],
    "read_file": ["fs.open", "fs.read", "fs.close"],
}


def q(s):
    return "'" + s.replace("\\", "\\\\").replace("'", "\\'") + "'"


def gen_case(rng, tier, k):
    nops = rng.randrange(5, 41)
    fault_rate = rng.choice([0, 0, 0.05, 0.1, 0.25, 0.5])
    ops = []
    handles = []        # (name, kind) kind in in/out/sin/sout
    nh = [0]

    def path(kinds=None):
        key = rng.choice(kinds or sorted(PATHS))
        return key, PATHS[key]

    def new_handle(kind):
        nh[0] += 1
        name = f"h_{nh[0]}"
        handles.append((name, kind))
        return name

    def some_handle(kinds=None):
        hs = [h for h in handles if kinds is None or h[1] in kinds]
        if hs and rng.random() < 0.9:
            return rng.choice(hs)[0]
        return rng.choice(["h_1", "stdin", "stdout", "console", "h_99"])

    for i in range(nops):
        r = rng.random()
        pk = "-"
        if r < 0.10:
            pk, p = path(["text", "empty", "bin", "dir", "missing", "inner",
                          "noparent", "new"])
            enc = rng.choice(["", "", ", 'utf-8'", ", 'latin-1'",
                              ", 'no-such-enc'", ", 'ascii'"])
            src = f"def {new_handle('in')} = file_input({q(p)}{enc})"
            name = "file_input"
        elif r < 0.20:
            pk, p = path(["new", "text", "dir", "noparent", "rel", "inner",
                          "newdir"])
            extra = rng.choice(["", "", ", 'utf-8', TRUE", ", 'ascii'",
                                ", 'bogus'", ", append = TRUE"])
            src = f"def {new_handle('out')} = file_output({q(p)}{extra})"
            name = "file_output"
        elif r < 0.24:
            src = (f"def {new_handle('sin')} = "
                   f"str_input({q(rng.choice(['a', 'l1\\nl2\\nl3', '']))})")
            name = "str_input"
        elif r < 0.27:
            src = f"def {new_handle('sout')} = str_output()"
            name = "str_output"
        elif r < 0.37:
            h = some_handle()
            fn = rng.choice(["read", "readln", "read_all"])
            src = f"{fn}({h})" if rng.random() < 0.85 else f"{fn}()"
            name = fn
        elif r < 0.42:
            h = some_handle()
            if rng.random() < 0.3:
                h = "stdin"
            cb = rng.choice(["fn(line) line", "fn(line) error 'cb'",
                             "fn(line) undefined_zz", "fn(line) 1 / 0",
                             "fn(line) print(line)", "fn(a, b) a"])
            src = f"process_lines({h}, {cb})"
            name = "process_lines"
        elif r < 0.47:
            h = some_handle()
            body = rng.choice(["line", "error 'body'", "print(line)",
                               "if line == 'l2' then break",
                               "undefined_zz", "close(" + h + ")"])
            src = f"for line in {h} do {body}; end"
            name = "for_input"
        elif r < 0.57:
            h = some_handle()
            fn = rng.choice(["print", "println"])
            what = rng.choice(["'x'", "'a\\nb'", "1.5", "[1, 2]", "NULL",
                               "<<1>>"])
            src = f"{fn}({what}, {h})" if rng.random() < 0.8 \
                else f"{fn}({what})"
            name = fn
        elif r < 0.59:
            src = rng.choice(["printf('%d-{s}', 5)", "printf('x')",
                              "printf(5)"])
            name = "printf"
        elif r < 0.65:
            src = f"close({some_handle()})"
            name = "close"
        elif r < 0.69:
            src = f"get_output_string({some_handle()})"
            name = "get_output_string"
        elif r < 0.74:
            k1, p1 = path()
            k2, p2 = path(["new", "dir", "text", "noparent", "newdir",
                           "missing"])
            fn = rng.choice(["file_copy", "file_move"])
            pk = k1 + ">" + k2
            src = f"{fn}({q(p1)}, {q(p2)})"
            name = fn
        elif r < 0.78:
            pk, p = path()
            src = f"file_delete({q(p)})"
            name = "file_delete"
        elif r < 0.81:
            pk, p = path()
            src = f"file_exists({q(p)})"
            name = "file_exists"
        elif r < 0.84:
            pk, p = path()
            if rng.random() < 0.3:
                pk, p = path(["linkcycle", "selflink", "linkchain",
                              "dangling", "linkfile", "linkdir", "loop"])
            src = f"file_info({q(p)})" + rng.choice([
                "", "->size", "->modified", "->modified < date()",
                "->created == date()", "->is_dir"])
            if rng.random() < 0.15:
                src = (f"sorted([file_info({q(p)})->modified, date(), "
                       f"file_info({q(PATHS['text'])})->created])")
            name = "file_info"
        elif r < 0.88:
            pk, p = path()
            if rng.random() < 0.3:
                pk, p = path(["loop", "linkdir", "root", "dangling", "dir"])
            extra = rng.choice(["", ", TRUE", ", TRUE, TRUE, TRUE",
                                ", FALSE, TRUE", ", include_dirs = TRUE"])
            src = f"list_dir({q(p)}{extra})"
            name = "list_dir"
        elif r < 0.91:
            pk, p = path(["newdir", "deep", "dir", "text", "noparent"])
            src = f"make_dir({q(p)}" + rng.choice([")", ", TRUE)"])
            name = "make_dir"
        elif r < 0.95:
            pk, p = path(["prog", "failprog", "missing", "dir", "text",
                          "noisy", "bigout", "noisy"])
            prog = p if rng.random() < 0.8 else rng.choice(["tool", "nope"])
            args = rng.choice(["[]", "['a', 1]", "[NULL]", "'notalist'"])
            extra = rng.choice([
                "", "", f", {q(PATHS['dir'])}", f", {q(PATHS['missing'])}",
                ", echo = TRUE", ", NULL, TRUE",
                f", output_file = {q(PATHS['new'])}",
                f", output_file = {q(PATHS['new'])}",
                f", {q(PATHS['dir'])}, FALSE, {q(PATHS['new'])}",
                f", {q(PATHS['dir'])}, TRUE, {q(PATHS['text'])}",
                f", output_file = {q(PATHS['noparent'])}",
                f", output_file = {q(PATHS['dir'])}"])
            src = f"execute({q(prog)}, {args}{extra})"
            name = "execute"
        elif r < 0.97:
            pk, p = path(["script", "badscript", "errscript", "missing",
                          "dir", "rel", "bin"])
            fn = rng.choice(["run", "read_file"])
            src = f"{fn}({q(p)})"
            name = fn
        elif r < 0.975:
            src = rng.choice([
                "which('tool')", "which('nope')",
                f"which('tool', [{q('/sim/bin')}, {q(PATHS['missing'])}])",
                f"which('in.txt', [{q(PATHS['dir'])}])",
                f"which('x', [{q(PATHS['text'])}])",
                "get_env('HOME')", "get_env('NOPE')", "get_env(1)"])
            name = src.split("(")[0]
        else:
            # the clock built-ins, also with arguments they do not declare
            # today; pure date arithmetic and conversions (date(n),
            # date - date, format_date ...) are C17 / the pure part of C13
            # and are deliberately not exercised here
            src = rng.choice(["date()", "timestamp()", "now()",
                              "string(date())", "date() < date()",
                              "date() == now()", "type(timestamp())",
                              "timestamp(date('00010101'))",
                              "timestamp(date('99991231235959'))",
                              "timestamp(0)", "timestamp(date())",
                              "timestamp(NULL)", "now(1)",
                              "timestamp('20200101')"])
            name = "clock"
        if not src.startswith(("def ", "for ", "do ")) and \
                rng.random() < 0.25:
            # the result is consumed by another operation
            src = rng.choice(["string({X})", "length(string({X}))",
                              "[{X}]", "{X} == {X}", "'' + string({X})",
                              "type({X})"]).replace("{X}", src)
        scenario = None
        if rng.random() < 0.06:
            # use a path, make it disappear (or change kind), use it again
            key = rng.choice(["script", "text", "inner", "errscript"])
            p0 = PATHS[key]
            use = rng.choice([f"run({q(p0)})", f"read_file({q(p0)})",
                              f"file_info({q(p0)})->size",
                              f"list_dir({q(D + '/sub')})",
                              f"def {new_handle('in')} = file_input({q(p0)})",
                              f"file_copy({q(p0)}, {q(PATHS['new'])})"])
            gone = rng.choice([f"file_delete({q(p0)})",
                               f"file_move({q(p0)}, {q(D + '/moved.x')})",
                               f"do file_delete({q(p0)}); make_dir({q(p0)});"
                               f" end"])
            scenario = [use, gone, use]
            if rng.random() < 0.3:
                # two live handles on one file: read it while appending
                hi, ho = new_handle("in"), new_handle("out")
                scenario = [
                    f"def {hi} = file_input({q(PATHS['text'])})",
                    f"def {ho} = file_output({q(PATHS['text'])}, 'utf-8', "
                    f"TRUE)",
                    rng.choice([
                        f"for line in {hi} do println(line, {ho}); end",
                        f"process_lines({hi}, fn(line) println(line, {ho}))"
                    ]),
                    f"close({ho})", f"string({ho})",
                    f"println('x', {ho})", f"string([1, {ho}])"]
        wrapped = rng.random() < 0.5
        faults = []
        if rng.random() < fault_rate:
            site = rng.choice(["fs.open", "fs.read", "fs.write", "fs.flush",
                               "fs.close", "fs.meta", "fs.stat", "proc.run",
                               "out.write", "out.flush", "out.close",
                               "in.read", "console.write"])
            if rng.random() < 0.8 and name in SITES_FOR:
                site = rng.choice(SITES_FOR[name])
            elif any(h[1] == "out" for h in handles) and rng.random() < 0.6:
                site = rng.choice(["fs.flush", "fs.write", "fs.close"])
            errs = {"fs.open": ["ENOENT", "EACCES", "EISDIR", "EMFILE",
                                "EIO"],
                    "fs.read": ["EIO", "UNICODE"],
                    "fs.write": ["ENOSPC", "EIO"], "fs.flush": ["EIO"],
                    "fs.close": ["EIO", "ENOSPC"],
                    "fs.meta": ["EACCES", "ENOTDIR", "EEXIST", "EBUSY",
                                "EXDEV", "EIO"],
                    "fs.stat": ["EACCES"],
                    "proc.run": ["ENOENT", "EACCES", "RC", "EIO"],
                    "out.write": ["EIO", "VALUE", "TYPE", "ATTR", "RUNTIME",
                                  "PIPE"],
                    "out.flush": ["EIO", "VALUE", "ATTR", "PIPE"],
                    "out.close": ["EIO", "ATTR"],
                    "in.read": ["EIO", "EOF", "VALUE", "TYPE", "ATTR"],
                    "console.write": ["EIO"]}
            faults = [{"site": site, "nth": rng.choice([0, 0, 0, 1, 2]),
                       "err": rng.choice(errs[site])}]
            if rng.random() < 0.2:
                s2 = rng.choice(["fs.close", "fs.write", "fs.meta"])
                faults.append({"site": s2, "nth": 0,
                               "err": rng.choice(errs[s2])})
        ops.append({"kind": "op", "name": name, "src": src, "pk": pk,
                    "wrapped": wrapped, "faults": faults})
        if scenario:
            for j2, s2 in enumerate(scenario):
                ops.append({"kind": "op", "name": "scenario:" +
                            s2.split("(")[0].split()[-1], "src": s2,
                            "pk": "use-remove-use", "wrapped":
                            rng.random() < 0.4, "faults": []})
        if rng.random() < 0.12:
            ops.append({"kind": "health"})
        if rng.random() < 0.05:
            ops.append({"kind": "clock", "jump": rng.choice(
                [-86400 * 365 * 20, -3600, 3600, 86400 * 365 * 30])})
    ops.append({"kind": "health"})
    # how the host/script configured the module path (run() and require
    # may look at it): undefined, a proper list, or something malformed
    mp = rng.choice([None, None, "['/sim/d/sub']", "'/sim/d/sub'", "NULL",
                     "['/sim/d/sub', NULL, 5]", "5"])
    if mp is not None:
        ops.insert(0, {"kind": "op", "name": "config",
                       "src": "def checkerlang_module_path = " + mp,
                       "pk": "-", "wrapped": False, "faults": []})
    return {"config": {"prng": 0.5,
                       "listdir_perm": rng.choice([None, None,
                                                   rng.randrange(1000)]),
                       "stdin": rng.choice(["", "in1\nin2\n", "x"]),
                       # the host hands over either an object with the
                       # input protocol or a plain Python text stream
                       "stdin_kind": rng.choice(["protocol", "protocol",
                                                 "text"])},
            "ops": ops}


def malformed(v, depth=0):
    """is this result a well-formed language value?  (a built-in that hands
    back e.g. an int value holding a float or a string value holding None
    lets host exceptions escape as soon as the value is used)"""
    import datetime
    from ckl import values as VV
    if not isinstance(v, VV.Value):
        return f"not a language value: {type(v).__name__}"
    if isinstance(v, VV.ValueBoolean):
        return None if isinstance(v.value, bool) else \
            f"boolean holding {type(v.value).__name__}"
    if isinstance(v, VV.ValueInt):
        return None if type(v.value) is int else \
            f"int holding {type(v.value).__name__}"
    if isinstance(v, VV.ValueDecimal):
        return None if type(v.value) in (int, float) else \
            f"decimal holding {type(v.value).__name__}"
    if isinstance(v, VV.ValueString):
        return None if isinstance(v.value, str) else \
            f"string holding {type(v.value).__name__}"
    if isinstance(v, VV.ValueDate):
        return None if isinstance(v.value, datetime.datetime) else \
            f"date holding {type(v.value).__name__}"
    if depth > 3:
        return None
    if isinstance(v, VV.ValueList):
        if not isinstance(v.value, list):
            return f"list holding {type(v.value).__name__}"
        for x in v.value[:50]:
            r = malformed(x, depth + 1)
            if r:
                return "list element: " + r
    if isinstance(v, VV.ValueObject):
        for k2, x in list(v.value.items())[:50]:
            if not isinstance(k2, str):
                return f"object member name {type(k2).__name__}"
            r = malformed(x, depth + 1)
            if r:
                return f"member {k2}: " + r
    if isinstance(v, VV.ValueMap):
        for k2, x in list(v.value.items())[:50]:
            r = malformed(k2, depth + 1) or malformed(x, depth + 1)
            if r:
                return "map entry: " + r
    if isinstance(v, VV.ValueSet):
        for x in list(v.value)[:50]:
            r = malformed(x, depth + 1)
            if r:
                return "set element: " + r
    return None


def build_world(sim):
    w = sim.w
    w.put_file(PATHS["text"], "l1\nl2\nl3\n")
    w.put_file(PATHS["empty"], "")
    w.put_file(PATHS["bin"], b"\xff\xfe\x00abc\x80\n")
    w.put_dir(PATHS["dir"])
    w.put_file(PATHS["inner"], "inner\n")
    # symbolic links: a directory with two links to itself (a cycle), a
    # dangling link, links to a file and to a directory
    w.put_file(PATHS["loop"] + "/a.txt", "in loop\n")
    w.put_symlink(PATHS["loop"] + "/self", ".")
    w.put_symlink(PATHS["loop"] + "/self2", ".")
    w.put_symlink(PATHS["dangling"], "no-such-target")
    w.put_symlink(PATHS["linkfile"], "a.txt")
    w.put_symlink(PATHS["linkdir"], "sub")
    w.put_symlink(PATHS["linkcycle"], "cyc2")
    w.put_symlink(D + "/cyc2", "cyc1")
    w.put_symlink(PATHS["selflink"], "selfl")
    w.put_symlink(PATHS["linkchain"], "chain2")
    w.put_symlink(D + "/chain2", "a.txt")
    w.put_file(PATHS["prog"], "#!tool\n")
    w.put_file(PATHS["failprog"], "#!fail\n")
    w.put_file(PATHS["script"], "def from_script = 5; from_script + 1")
    w.put_file(PATHS["badscript"], "def x = ;")
    w.put_file(PATHS["errscript"], "error 'in-script'")
    w.put_file(PATHS["noisy"], "#!noisy\n")
    w.put_file(PATHS["bigout"], "#!bigout\n")
    # a child that writes a lot to stderr / to stdout
    w.programs[PATHS["noisy"]] = (0, "o1\no2\n", "E" * 200000)
    # (few but long lines: a script that reads the captured output line
    # by line must not need more steps than the budget allows)
    w.programs[PATHS["bigout"]] = (0, ("L" * 9999 + "\n") * 20, "warn\n")
    w.programs[PATHS["prog"]] = (0, "tool output\n")
    w.programs[PATHS["failprog"]] = (3, "")
    w.programs["tool"] = (0, "tool output\n")


def run_case(case, root):
    cfg = case["config"]
    sim = Sim(root, cfg.get("prng", 0.5), budget=600_000)
    res = {"violations": [], "probes": {}, "counters": {}, "configured": {},
           "extra_fps": []}
    viol = res["violations"]
    probes = res["probes"]
    observed = []

    def V(clause, sig, detail):
        if len(viol) < 6 and not any(v["sig"] == f"{ID}:{sig}"
                                     for v in viol):
            viol.append({"clause": clause, "sig": f"{ID}:{sig}",
                         "detail": detail})

    try:
        build_world(sim)
        sim.w.listdir_perm = cfg.get("listdir_perm")
        it = sim.new_interpreter("A", False, True, cfg.get("stdin", ""),
                                 cfg.get("stdin_kind", "protocol"))
        if cfg.get("stdin_kind") == "text":
            probes["stdin_is_python_text_stream"] = 1
        from ckl.values import Value
        from ckl.errors import CklRuntimeError
        prev_failed = False
        closed = set()
        nchecked = 0
        for idx, op in enumerate(case["ops"]):
            kind = op["kind"]
            if kind == "clock":
                sim.w.clock_offset += op["jump"]
                probes["clock_jumped"] = 1
                continue
            if kind == "health":
                out = sim.run(idx, "A", [], lambda: it.interpret(
                    "def hp_ = str_output(); print('ok', hp_); "
                    "get_output_string(hp_) + string(1 + 1)", "health"))
                if out["kind"] != "val" or out["val"] != "'ok2'":
                    V("session-usable", "session-unusable",
                      f"op#{idx} health probe after "
                      f"{observed[-1] if observed else None} gave {out}")
                    break
                if prev_failed:
                    probes["op_failed_then_next_ok"] = 1
                continue
            src = op["src"]
            if op["wrapped"]:
                src = "do " + src + "; catch all 'C'; end"
            for f in op["faults"]:
                key = f["site"] + ":" + f.get("err", "EIO")
                res["configured"][key] = res["configured"].get(key, 0) + 1
            n_ev = len(sim.w.trace)
            holder = {}

            def thunk():
                try:
                    r = it.interpret(src, "op")
                    holder["result"] = r
                    return r
                except CklRuntimeError as e:
                    holder["value"] = e.value
                    raise
            out = sim.run(idx, "A", op["faults"], thunk)
            touched = sorted({ev[2] for ev in sim.w.trace[n_ev:]
                              if ev[2] in ("open", "os", "stat", "proc",
                                           "out", "in", "console", "clock",
                                           "fsread", "fswrite", "pkg")})
            rec = {"op": idx, "src": src, "kind": out["kind"],
                   "val": out.get("val", "")[:80], "cls": out.get("cls"),
                   "msg": (out.get("msg") or "")[:100],
                   "fired": out["fired"], "touched": touched}
            observed.append(rec)
            if len(observed) > 8:
                observed.pop(0)
            firedk = tuple(sorted(f["site"] + ":" + f.get("err", "")
                                  for f in out["fired"]))
            if touched:
                res["extra_fps"].append(fingerprint(
                    (op["name"], op["pk"], firedk, out["kind"])))
            if out["fired"]:
                probes["fault_inside_op"] = 1
            if "proc" in touched:
                probes["process_spawned"] = 1
            if any(k2 in op["pk"] for k2 in ("loop", "dangling", "linkfile",
                                             "linkdir")) and touched:
                probes["symlink_touched"] = 1
            if op["name"] in ("process_lines", "for_input") and \
                    out["kind"] == "rt" and out["val"] in ("'cb'", "'body'"):
                probes["callback_raised"] = 1
            hname = src.split("(")[-1].split(")")[0].split(",")[-1].strip()
            if op["name"] == "close":
                if hname in closed:
                    probes["closed_twice"] = 1
                closed.add(hname)
            elif any(h in src for h in closed):
                probes["handle_reused_after_close"] = 1
            if out["kind"] == "budget":
                V("terminates", "nontermination:" + op["name"],
                  f"op#{idx} `{src}` did not terminate ({out['msg']})")
                break
            if out["kind"] == "host":
                V("language-error",
                  f"host-exception:{op['name']}:{out['cls']}",
                  f"op#{idx} `{src}` let {out['cls']}: {out['msg']} escape "
                  f"(faults fired {out['fired']}, world events {touched})")
                break
            if out["kind"] == "syn":
                V("language-error", f"syntax-error-escaped:{op['name']}",
                  f"op#{idx} `{src}` raised a syntax error at run time, "
                  f"which catch cannot intercept: {out['msg']}")
                break
            if out["kind"] == "val":
                bad = malformed(holder.get("result"))
                if bad is None and out["val"].startswith("<unprintable"):
                    bad = "cannot be rendered: " + out["val"]
                if bad:
                    V("well-formed-result", f"malformed-result:{op['name']}",
                      f"op#{idx} `{src}` returned a malformed value "
                      f"({bad}); using it raises host exceptions")
                    break
            if out["kind"] == "rt":
                if not isinstance(holder.get("value"), Value):
                    V("error-value", f"error-value-not-a-value:{op['name']}",
                      f"op#{idx} `{src}`: runtime error carries "
                      f"{type(holder.get('value')).__name__}, not a "
                      f"language value")
                    break
                if op["wrapped"]:
                    V("catchable", f"catch-all-missed:{op['name']}",
                      f"op#{idx} `{src}`: runtime error escaped a "
                      f"catch all: {out['val']} {out['msg']}")
                    break
                prev_failed = True
            else:
                if op["wrapped"] and out["val"] == "'C'":
                    probes["wrapped_caught"] = 1
                    prev_failed = True
            nchecked += 1
        res["nops"] = len(case["ops"])
        res["counters"] = {"ops_checked": nchecked}
        res["fp"] = None
        res["nontrivial"] = False
        if sim.w.bypass:
            res["counters"]["bypass_events"] = len(sim.w.bypass)
    finally:
        res["digest"] = sim.w.digest()
        res["fired"] = dict(sim.w.fired)
        res["steps"] = sim.clock.total
        res["faulty"] = bool(sim.w.fired)
        res["observed"] = observed
        sim.close()
    return res


def _mut(name, file, old, new, count=1):
    return {"prop": ID, "name": name, "file": file, "old": old, "new": new,
            "count": count}


MUTANTS = [
    _mut("file_input-unwrapped", "ckl/functions.py",
         """        try:
            return ValueInput(FileInput(filename, encoding))
        except Exception:
            raise CklRuntimeError(
                ValueString("ERROR"), "Cannot open file " + filename, pos
            )""",
         """        return ValueInput(FileInput(filename, encoding))"""),
    _mut("file_output-unwrapped", "ckl/functions.py",
         """        try:
            return ValueOutput(FileOutput(filename, encoding, append))
        except Exception:
            raise CklRuntimeError(
                ValueString("ERROR"), "Cannot open file " + filename, pos
            )""",
         """        return ValueOutput(FileOutput(filename, encoding, append))"""),
    _mut("file_delete-catches-only-notfound", "ckl/functions.py",
         """                os.remove(filename)
        except Exception:""",
         """                os.remove(filename)
        except FileNotFoundError:"""),
    _mut("make_dir-catches-only-exists", "ckl/functions.py",
         """                os.mkdir(dirname)
        except Exception:""",
         """                os.mkdir(dirname)
        except FileExistsError:"""),
    _mut("print-unwrapped", "ckl/functions.py",
         """        try:
            output.write(obj.value)
        except Exception:
            raise CklRuntimeError(
                ValueString("ERROR"), "Cannot write to output", pos
            )
        return NULL""",
         """        output.write(obj.value)
        return NULL"""),
    _mut("println-catches-oserror-only", "ckl/functions.py",
         """            output.writeLine(obj.value)
        except Exception:""",
         """            output.writeLine(obj.value)
        except OSError:"""),
    _mut("close-unwrapped", "ckl/functions.py",
         """            try:
                conn.close()
            except Exception:
                raise CklRuntimeError(
                    ValueString("ERROR"), "Could not close connection", pos
                )
            return NULL""",
         """            conn.close()
            return NULL"""),
    _mut("readln-unwrapped", "ckl/functions.py",
         """        try:
            line = inp.readLine()
            if line is None:
                return NULL
            return ValueString(line)
        except Exception:
            raise CklRuntimeError(
                ValueString("ERROR"), "Cannot read from input", pos
            )""",
         """        line = inp.readLine()
        if line is None:
            return NULL
        return ValueString(line)"""),
    _mut("run-unwrapped", "ckl/functions.py",
         """        try:
            with open(path, encoding="utf-8") as infile:
                script = infile.read()
        except Exception:
            raise CklRuntimeError(
                ValueString("ERROR"), "File " + path + " not found", pos
            )""",
         """        with open(path, encoding="utf-8") as infile:
            script = infile.read()"""),
    _mut("file_info-no-catch", "ckl/functions.py",
         """            return result
        except Exception:
            return NULL""",
         """            return result
        except FileNotFoundError:
            return NULL"""),
    _mut("error-value-plain-string", "ckl/functions.py",
         """            raise CklRuntimeError(
                ValueString("ERROR"), "Cannot delete file " + filename, pos
            )""",
         """            raise CklRuntimeError(
                "ERROR", "Cannot delete file " + filename, pos
            )"""),
]
