"""C05 -- errors reach the nearest matching handler; finally runs exactly once.

A seeded generator produces nests of do/catch/finally blocks inside functions
and loops.  Every statement that has an effect is a write to the simulated
stdout, i.e. a fault site.  For each nest the simulator runs the fault-free
schedule, *every* single fault position (fail the k-th stream write / stream
read), a sample of double faults and (thorough) `step` faults at arbitrary
evaluation steps, and compares the recorded event history and the final
outcome with the reference model.  See DESIGN.md section 4.1.
"""
import json
import random

from .. import lang
from ..lang import Unspec
from ..session import Sim, fingerprint, model_run
from ..world import SimIn

ID = "C05"
TIERS = {
    "quick": {"runs": 2600, "wall_s": 150, "chunk": 25, "det": 40,
              "det_fresh": 12, "min_s": 40, "doubles": 6, "steps": 0},
    "thorough": {"runs": 200000, "wall_s": 2400, "chunk": 100, "det": 200,
                 "det_fresh": 40, "min_s": 120, "doubles": 20, "steps": 12},
}
RULE = ("each generated nest (depth <= 4, <= ~30 statements: do/catch/"
        "finally blocks, for/while/stream loops, generated functions, "
        "(also recursive ones), error statements with values of every data "
        "kind, catch values that are literals or expressions over loop "
        "variables/parameters, runtime faults, return (also of a call)/"
        "break/continue also directly inside finally parts, blocks used as "
        "values, handlers and finally parts that raise) is "
        "run fault-free, with EVERY single fault position (k-th stream "
        "write fails, k-th stream read fails or hits EOF), with sampled "
        "double faults and (thorough) with errors injected at arbitrary "
        "evaluation steps; one evaluation = one (nest, fault plan) run whose "
        "event history and outcome are compared with the reference model; "
        "distinct = distinct (nest shape, fault plan); non-trivial = an "
        "error (planned or injected) was actually raised in that run")
REAL = ["ckl.lexer", "ckl.parser", "ckl.nodes (NodeBlock, NodeError, loops, "
        "NodeFuncall)", "ckl.functions (FuncLambda, print, natives)",
        "ckl.interpreter.Interpreter"]
STUBBED = ["stdout/stdin objects (every write/read is a fault site)",
           "file system, clock (unused by this workload)"]
ASSUMPTIONS = [
    "the reference model (lang.Machine.block) states handler selection and "
    "finally as C05 does; equality of error values is numeric across "
    "int/decimal, structural for collections, never across kinds",
    "return/break/continue directly inside a finally part, and control "
    "values bound by def, are unspecified and not generated",
    "a failing write surfaces as the runtime error 'ERROR' (the print "
    "built-ins' documented behaviour)",
]
REQUIRED_PROBES = {
    "quick": ["handler_rejected_by_value", "handler_matched_numeric",
              "finally_after_break", "finally_after_return",
              "finally_raises", "handler_raises", "uncaught_reaches_top",
              "stream_loop_body_error", "fault_in_finally",
              "fault_in_handler", "return_of_call_raised_in_block",
              "catch_value_expression", "control_statement_in_finally",
              "recursive_call"],
}
REQUIRED_PROBES["thorough"] = REQUIRED_PROBES["quick"]

ERR_VALUES = ["boom", "x", 7, 0, 1, ["f", 1.0], ["f", 2.5], True, False,
              None, ["l", [1, 2]], ["l", []], "ERROR", "1", ["set", [3]],
              ["set", []], ["map", [["k", 1]]], ["l", [["l", [1]], "a"]],
              ["map", []], ""]
# pairs that are equal although spelled differently, and near misses
EQUIV = {repr(1): [["f", 1.0]], repr(["f", 1.0]): [1],
         repr(0): [["f", 0.0]]}
NEAR = {repr(1): ["1", True], repr("1"): [1], repr(True): [1, "TRUE"],
        repr(0): [False, None], repr(None): [0, "NULL", False],
        repr(["l", []]): [["set", []], None, ["map", []]],
        repr(["map", []]): [["set", []], ["l", []], None],
        repr(""): [None, "ERROR", 0],
        repr(["l", [1, 2]]): [["l", [2, 1]], ["set", [1, 2]]],
        repr("boom"): ["Boom", "boom "], repr("ERROR"): ["error"]}


class NestGen:
    def __init__(self, rng):
        self.rng = rng
        self.nblk = 0
        self.nmark = 0
        self.nstmt = 0
        self.fns = []

    def mark(self, prefix):
        self.nmark += 1
        return ["mark", f"{prefix}{self.nmark}"]

    def value(self):
        return self.rng.choice(ERR_VALUES)

    def catch_value(self, raised, ctx=None):
        rng = self.rng
        r = rng.random()
        if rng.random() < 0.06:
            return {"e": ["lam"]}       # never equal to any raised value
        if ctx and rng.random() < 0.25:
            # a catch value computed from a variable: the same block can
            # meet different catch values on different executions
            if ctx.get("loopvar"):
                return {"e": ["v", ctx["loopvar"]]}
            if ctx.get("infn_def"):
                return {"e": rng.choice([["v", "p"],
                                         ["op", "+", ["v", "p"], 1]])}
        if raised is not None and r < 0.35:
            return raised
        if raised is not None and r < 0.5 and repr(raised) in EQUIV:
            return rng.choice(EQUIV[repr(raised)])
        if raised is not None and r < 0.7 and repr(raised) in NEAR:
            return rng.choice(NEAR[repr(raised)])
        if r < 0.8:
            return "ERROR"
        return self.value()

    def fail_stmt(self, ctx=None):
        rng = self.rng
        if ctx and rng.random() < 0.3:
            if ctx.get("loopvar"):
                return ["erre", ["v", ctx["loopvar"]]]
            if ctx.get("infn_def"):
                return ["erre", rng.choice([["v", "p"], 1, 2])]
        if rng.random() < 0.04:
            # an error value that is not data: an output stream object
            return ["erre", ["v", "stdout"]]
        if rng.random() < 0.04:
            # ... or a function value (equal only to itself)
            return ["erre", ["lam"]]
        if rng.random() < 0.6:
            return ["err", self.value()]
        return [rng.choice(["undef", "div0", "idx", "badcall"])]

    def stmts(self, depth, ctx, n):
        out = []
        for _ in range(n):
            if self.nstmt > 28:
                break
            out.append(self.stmt(depth, ctx))
        return out

    def stmt(self, depth, ctx):
        rng = self.rng
        self.nstmt += 1
        r = rng.random()
        if r < 0.28:
            return self.mark("m")
        if r < 0.42:
            return self.fail_stmt(ctx)
        if r < 0.62 and depth < 4:
            return self.block(depth + 1, ctx)
        if r < 0.70 and depth < 4 and not ctx.get("nolp"):
            kind = rng.choice(["for", "for", "while", "forin", "forin"])
            c2 = dict(ctx, loop=True, loopvar=None)
            if kind == "for":
                self.nvar = getattr(self, "nvar", 0) + 1
                nloop = rng.randrange(1, 4)
                lvname = f"k_{self.nvar}"
                if ctx.get("loopvar") and rng.random() < 0.3:
                    # blocks open no scope: a nested loop may reuse the
                    # variable name of the loop around it (both loops then
                    # bind and remove the same entry)
                    lvname = ctx["loopvar"]
                c2 = dict(c2, loopvar=lvname,
                          loopat=rng.randrange(nloop))
                lv = c2["loopvar"]
                body = [self.block(depth + 1, c2)] if rng.random() < 0.7 \
                    else self.stmts(depth + 1, c2, rng.randrange(1, 3))
                return ["for", lv, ["l", list(range(nloop))], body]
            body = [self.block(depth + 1, c2)] if rng.random() < 0.7 else \
                self.stmts(depth + 1, c2, rng.randrange(1, 3))
            if kind == "while":
                self.nvar = getattr(self, "nvar", 0) + 1
                cv = f"w_{self.nvar}"
                return ["blk", [["def", cv, 0],
                                ["while", cv, rng.randrange(1, 4), body]],
                        [], None]
            if ctx.get("instream"):
                return self.mark("m")
            c3 = dict(c2, instream=True)
            body = [self.block(depth + 1, c3)] if rng.random() < 0.7 else \
                self.stmts(depth + 1, c3, rng.randrange(1, 3))
            self.nvar = getattr(self, "nvar", 0) + 1
            return ["forin", f"k_{self.nvar}", "stdin", body]
        if r < 0.76 and ctx.get("selfname") and rng.random() < 0.5:
            return self.self_call(ctx)
        if r < 0.76 and self.fns and not ctx.get("infn_def"):
            f = rng.choice(self.fns)
            return ["expr", ["call", f, [rng.randrange(3)]]]
        if r < 0.82 and ctx.get("fn") and not ctx.get("nocontrol"):
            if self.fns and not ctx.get("infn_def") and rng.random() < 0.5:
                # the returned expression is itself a call that may raise
                # while the enclosing blocks are still active
                return ["ret", ["call", rng.choice(self.fns),
                                [rng.randrange(3)]]]
            if ctx.get("infn_def") and rng.random() < 0.6:
                return ["ret", ["l", [["v", "p"], ["lit", self.value()]]]]
            return ["ret", ["lit", self.value()]]
        if r < 0.90 and ctx.get("loop") and not ctx.get("nocontrol"):
            return [rng.choice(["brk", "cont"])]
        if r < 0.95 and depth < 4:
            return self.defblk(depth + 1, ctx)
        return self.mark("m")

    def self_call(self, ctx):
        """the function calls itself with a smaller argument (bounded; at
        most two call sites per function, or the work explodes)"""
        self.nself = getattr(self, "nself", 0) + 1
        if self.nself > 2:
            return self.mark("m")
        return ["if", ["op", ">", ["v", "p"], 0],
                [["expr", ["call", ctx["selfname"],
                           [["op", "-", ["v", "p"], 1]]]]], None]

    def block(self, depth, ctx, as_value=False, force=None):
        rng = self.rng
        self.nblk += 1
        bid = self.nblk
        shape = rng.random()
        if shape < 0.12 and depth < 4 and not as_value:
            # a block whose only statement is another block (the shapes a
            # parser-level simplification would be tempted to merge)
            inner_force = None
            if force is None and rng.random() < 0.6:
                if rng.random() < 0.5:
                    inner_force, force = ("fin-only", "catch-only")
                else:
                    inner_force, force = ("catch-only", "fin-only")
            body = [self.block(depth + 1, ctx, force=inner_force)]
        elif shape < 0.22:
            body = self.stmts(depth, ctx, rng.randrange(1, 4)) or \
                [self.mark("m")]
        else:
            body = [["mark", f"E{bid}"]]
            body += self.stmts(depth, ctx, rng.randrange(1, 4))
        raised = None
        for s in body:
            if s[0] == "err":
                raised = s[1]
        if ctx.get("loop") and not ctx.get("nocontrol") and \
                rng.random() < 0.3:
            body.insert(rng.randrange(1, len(body) + 1),
                        ["if", ["op", "==", ["v", ctx["loopvar"]],
                                ctx["loopat"]],
                         [[rng.choice(["brk", "cont", "brk"])]], None]
                        if ctx.get("loopvar") and rng.random() < 0.6
                        else [rng.choice(["brk", "cont"])])
        if as_value:
            body.append(["expr", ["lit", self.value()]])
        catches = []
        ncatch = rng.choice([0, 1, 1, 2, 3])
        if force == "fin-only":
            ncatch = 0
        elif force == "catch-only":
            ncatch = max(1, ncatch)
        for i in range(ncatch):
            if rng.random() < 0.2:
                cv = None
            else:
                cv = self.catch_value(raised, ctx)
                if not isinstance(cv, dict) or ("e" not in cv):
                    cv = {"v": cv}
            h = [["mark", f"H{bid}.{i}"]]
            rr = rng.random()
            if rr < 0.2:
                h.append(self.fail_stmt())           # handler raises
            elif rr < 0.3 and ctx.get("fn") and not ctx.get("nocontrol"):
                if self.fns and not ctx.get("infn_def") and \
                        rng.random() < 0.4:
                    h.append(["ret", ["call", rng.choice(self.fns),
                                      [rng.randrange(3)]]])
                else:
                    h.append(["ret", ["lit", self.value()]])
            elif rr < 0.4 and ctx.get("loop") and not ctx.get("nocontrol"):
                h.append([rng.choice(["brk", "cont"])])
            elif rr < 0.55 and depth < 4:
                h.append(self.block(depth + 1, ctx))
            if as_value and h[-1][0] not in ("err", "undef", "div0", "idx",
                                             "badcall", "ret", "brk", "cont"):
                h.append(["expr", ["lit", self.value()]])
            catches.append([cv, h])
        fin = None
        if force != "catch-only" and (
                rng.random() < 0.65 or force == "fin-only"
                or (shape < 0.12 and not catches)):
            fin = [["mark", f"F{bid}"]]
            rr = rng.random()
            cfin = dict(ctx, nocontrol=True, nolp=True)
            if ctx.get("selfname") and rng.random() < 0.35:
                fin.append(self.self_call(ctx))
            if rr < 0.15:
                fin.append(self.fail_stmt())          # finally raises
            elif rr < 0.3 and depth < 4:
                fin.append(self.block(depth + 1, cfin))
            elif rr < 0.4:
                fin.append(self.mark("f"))
                if ctx.get("selfname"):
                    # the finally part re-enters the function being left
                    fin.append(self.self_call(ctx))
            elif rr < 0.55:
                # a control statement directly inside the finally part: it
                # must not swallow an error in flight nor end the part
                ctl = [["brk"], ["cont"]] if ctx.get("loop") else []
                if ctx.get("fn"):
                    ctl.append(["ret", ["lit", self.value()]])
                if ctl:
                    fin.append(rng.choice(ctl))
                    fin.append(self.mark("f"))
        return ["blk", body, catches, fin]

    def defblk(self, depth, ctx):
        self.nvar = getattr(self, "nvar", 0) + 1
        name = f"r_{self.nvar}"
        c2 = dict(ctx, nocontrol=True)
        b = self.block(depth, c2, as_value=True)
        return ["blk", [["defblk", name, b], ["markv", ["v", name]]], [],
                None]


def gen_case(rng, tier, k):
    g = NestGen(rng)
    prog = []
    for i in range(rng.choice([0, 1, 1, 2])):
        name = f"fn{i + 1}"
        ctx = {"fn": True, "infn_def": True, "selfname": name}
        g.nself = 0
        body = [g.block(1, ctx)]
        if rng.random() < 0.7:
            body.append(["if", ["op", "==", ["v", "p"], rng.randrange(3)],
                         [g.fail_stmt()], None])
            body.append(g.mark("fnm"))
        # the result depends on the argument, so that a value leaking
        # from one activation into another is visible
        body.append(["ret", ["l", [["v", "p"], ["lit", g.value()]]]])
        prog.append(["deffn", name, ["p"], body])
        g.fns.append(name)
    ctx = {"fn": True}
    main = [g.block(1, ctx)]
    if rng.random() < 0.4:
        main.append(g.block(1, ctx))
    main.append(["ret", ["lit", "done"]])
    prog.append(["deffn", "t_main", [], main])
    prog.append(["expr", ["call", "t_main", []]])
    nlines = rng.randrange(0, 4)
    return {"stmts": prog, "stdin": [f"ln{i}" for i in range(nlines)],
            "plans": None, "tier": tier}


# ------------------------------------------------------------------------

def run_case(case, root):
    tier = case.get("tier", "quick")
    tcfg = TIERS.get(tier, TIERS["quick"])
    sim = Sim(root, 0.5, budget=200_000)
    res = {"violations": [], "probes": {}, "counters": {}, "configured": {},
           "extra_fps": []}
    viol = res["violations"]
    probes = res["probes"]
    observed = []
    stmts = case["stmts"]
    src = lang.render_command(stmts)
    shape = fingerprint(stmts)
    static = analyse(stmts)
    evals = 0

    def V(clause, sig, detail, plan=None):
        if len(viol) < 4:
            viol.append({"clause": clause, "sig": f"{ID}:{sig}",
                         "detail": detail, "plan": plan})

    try:
        it = sim.new_interpreter("A", True, False)
        from ckl.functions import Environment

        def one(idx, plan):
            """one (nest, fault plan) run; returns False on violation"""
            nonlocal evals
            evals += 1
            stream_faults = [f for f in plan if f["site"] != "step"]
            step_faults = tuple(f["nth"] for f in plan
                                if f["site"] == "step")
            for f in plan:
                key = f["site"] + ":" + f.get("err", "EIO")
                res["configured"][key] = res["configured"].get(key, 0) + 1
            # the model
            m = lang.Machine(None, "A")
            m.session.vars["stdin"] = lang.Stream("stdin", "in")
            m.session.vars["stdout"] = lang.Stream("stdout", "out")
            m.streams["stdin"] = {"lines": list(case["stdin"]), "pos": 0}
            try:
                mout, mevents, mfired = model_run(m, stmts, m.session,
                                                  stream_faults, [])
            except Unspec as e:
                probes["unspec"] = probes.get("unspec", 0) + 1
                return True
            # the system
            text = "".join(ln + "\n" for ln in case["stdin"])
            it.setStandardInput(SimIn(sim.w, text, "A.in"))
            n0 = len(sim.outs["A"].chunks)
            out = sim.run(idx, "A", stream_faults,
                          lambda: it.interpret(src, "nest", Environment()),
                          fault_steps=step_faults)
            events = sim.outs["A"].chunks[n0:]
            if not plan:
                static["base_steps"] = max(2, out["steps"])
            rec = {"plan": plan, "model": [mout[0], lang.vstr(mout[1])
                                           if mout[0] != "syn" else None],
                   "model_events": [t for _, t in mevents],
                   "sut": {k: out[k] for k in ("kind", "val", "msg", "cls")
                           if k in out},
                   "events": events}
            if len(observed) < 6:
                observed.append(rec)
            stepped = any(f.get("site") == "step" for f in out["fired"])
            if m.raised or out["fired"]:
                res["extra_fps"].append(fingerprint((shape, plan)))
            if out["kind"] == "budget":
                V("terminates", "step-budget",
                  f"plan {plan}: nest did not terminate: `{src}`", plan)
                return False
            if out["kind"] == "host":
                V("language-error", "host-exception:" + out["cls"],
                  f"plan {plan}: host exception {out['cls']}: "
                  f"{out['msg']} escaped from `{src}`", plan)
                return False
            # history invariants, independent of the model
            bad = history_invariants(static, events, len(out["fired"]))
            if bad:
                V("finally-exactly-once", "history:" + bad[0],
                  f"plan {plan}: {bad[1]}; events {events}; `{src}`", plan)
                return False
            if stepped:
                probes["step_fault_runs"] = probes.get("step_fault_runs",
                                                       0) + 1
                return True          # the model cannot mirror a step fault
            mev = [t for _, t in mevents]
            if mev != events:
                V("events", classify_events(mev, events),
                  f"plan {plan}: expected events {mev} got {events}; "
                  f"outcome model {rec['model']} sut {rec['sut']}; "
                  f"`{src}`", plan)
                return False
            if mout[0] != out["kind"]:
                V("outcome", f"outcome:{mout[0]}->{out['kind']}",
                  f"plan {plan}: expected {rec['model']} got "
                  f"{rec['sut']}; `{src}`", plan)
                return False
            if lang.vstr(mout[1]) != out["val"]:
                V("error-value" if mout[0] == "rt" else "value",
                  "error-value" if mout[0] == "rt" else "value",
                  f"plan {plan}: expected {rec['model']} got "
                  f"{rec['sut']}; events {events}; `{src}`", plan)
                return False
            for k2, v2 in m.stats.items():
                probes[k2] = probes.get(k2, 0) + v2
            if mout[0] == "rt":
                probes["uncaught_reaches_top"] = probes.get(
                    "uncaught_reaches_top", 0) + 1
            return True

        if case.get("plans") is not None:
            plans = case["plans"]
        else:
            plans = [[]]
        idx = 0
        ok = True
        for plan in plans:
            ok = one(idx, plan) and ok
            idx += 1
        if case.get("plans") is None and ok:
            # every single fault position, derived from the fault-free run
            base_events = observed[0]["events"] if observed else []
            nw = len(base_events) + 2
            nr = min(len(case["stdin"]) + 2, 6) if any(
                s[0] == "forin" for s in lang.walk_stmts(stmts)) else 0
            singles = [[{"site": "out.write", "nth": k, "err": "EIO"}]
                       for k in range(nw)]
            singles += [[{"site": "in.read", "nth": k, "err": e}]
                        for k in range(nr) for e in ("EIO", "EOF")]
            # the stream can fail in ways other than OSError (a host object
            # of the wrong kind): a few positions with other classes
            r3 = random.Random(int(shape, 16) + 1)
            for _ in range(min(4, nw)):
                singles.append([{"site": "out.write",
                                 "nth": r3.randrange(nw),
                                 "err": r3.choice(["TYPE", "ATTR", "RUNTIME",
                                                   "VALUE", "PIPE"])}])
            if static["base_steps"] > 12000 or nw > 150:
                # a nest this expensive (deep recursion x loops) gets a
                # sample of the positions instead of all of them, so that
                # one case cannot eat the budget of the batch
                probes["expensive_nest_sampled"] = 1
                r4 = random.Random(int(shape, 16) + 2)
                singles = r4.sample(singles, min(len(singles), 12))
            for plan in singles:
                if not one(idx, plan):
                    ok = False
                    break
                idx += 1
            # sampled double faults (seeded by the nest itself)
            r2 = random.Random(int(shape, 16))
            if ok:
                for _ in range(tcfg["doubles"]):
                    a, b = sorted(r2.sample(range(nw), 2)) if nw >= 2 \
                        else (0, 0)
                    plan = [{"site": "out.write", "nth": a, "err": "EIO"},
                            {"site": "out.write", "nth": b, "err":
                             r2.choice(["EIO", "ENOSPC", "VALUE"])}]
                    if nr and r2.random() < 0.3:
                        plan[1] = {"site": "in.read",
                                   "nth": r2.randrange(nr),
                                   "err": r2.choice(["EIO", "EOF"])}
                    if not one(idx, plan):
                        ok = False
                        break
                    idx += 1
            if ok and tcfg["steps"]:
                base_steps = static["base_steps"]
                for _ in range(tcfg["steps"]):
                    plan = [{"site": "step",
                             "nth": r2.randrange(1, base_steps + 1)}]
                    if not one(idx, plan):
                        ok = False
                        break
                    idx += 1
        res["nops"] = evals
        res["evals"] = evals
        res["counters"] = {"nest_fault_runs": evals, "nests": 1}
        res["fp"] = shape
        res["nontrivial"] = False      # counted through extra_fps
    finally:
        res["digest"] = sim.w.digest()
        res["fired"] = dict(sim.w.fired)
        res["steps"] = sim.clock.total
        res["faulty"] = bool(sim.w.fired)
        res["observed"] = observed[:4]
        sim.close()
    return res


def analyse(stmts):
    """static facts about a nest: block ids with/without finally"""
    info = {"fin": set(), "blocks": set(), "base_steps": 60}
    for s in lang.walk_stmts(stmts):
        if s[0] == "blk" and s[1] and s[1][0][0] == "mark" and \
                s[1][0][1].startswith("E"):
            bid = s[1][0][1][1:]
            info["blocks"].add(bid)
            if s[3] is not None:
                info["fin"].add(bid)
    info["base_steps"] = 30 + 12 * sum(1 for _ in lang.walk_stmts(stmts))
    return info


def history_invariants(static, events, nfired):
    """model-independent: for every block that has a finally part, each
    enter mark E<id> is followed by exactly one F<id> before the next
    E<id>, and none is pending when the program is left.  A fault can make
    at most one mark go missing (the write or the step it struck), so up to
    `nfired` anomalies are tolerated; the exact comparison with the model
    decides the stream-fault runs anyway."""
    pending = {}
    anomalies = []
    for ev in events:
        t = ev[:-1] if ev.endswith("|") else ev
        if len(t) >= 2 and t[0] in "EF" and t[1:].isdigit():
            bid = t[1:]
            if bid not in static["fin"]:
                continue
            if t[0] == "E":
                # a counter, not a flag: with recursion the same block has
                # several activations nested inside each other
                pending[bid] = pending.get(bid, 0) + 1
            else:
                if not pending.get(bid):
                    anomalies.append(("finally-twice",
                                      f"finally of block {bid} ran without "
                                      f"a matching entry (twice?)"))
                else:
                    pending[bid] -= 1
    left = sorted(b for b, pnd in pending.items() if pnd)
    for b in left:
        for _ in range(pending[b]):
            anomalies.append(("finally-skipped",
                              f"finally of block {b} never ran"))
    if len(anomalies) > nfired:
        return anomalies[0]
    return None


def classify_events(want, got):
    """a coarse, stable signature for an event-history mismatch"""
    def count(evs, pfx):
        return sum(1 for e in evs if e.startswith(pfx))
    if count(got, "F") < count(want, "F"):
        return "events:finally-missing"
    if count(got, "F") > count(want, "F"):
        return "events:finally-extra"
    if count(got, "H") != count(want, "H"):
        return "events:handler-selection"
    if len(got) > len(want):
        return "events:statement-after-failure"
    return "events:order"


def minimise_case(case, ok):
    """structural shrinking of the nest: pin the failing plan first, then
    repeatedly delete statements / unwrap blocks while the same violation
    signature persists"""
    case = json.loads(json.dumps(case))
    if case.get("plans") is None:
        # find the failing plan by re-running (cheap) with each candidate
        import tempfile
        import shutil
        d = tempfile.mkdtemp(prefix="c05min")
        try:
            res = run_case(case, d)
        finally:
            shutil.rmtree(d, ignore_errors=True)
        for v in res["violations"]:
            if v.get("plan") is not None:
                cand = dict(case, plans=[v["plan"]])
                if ok(cand):
                    case = cand
                    break
    changed = True
    rounds = 0
    while changed and rounds < 40:
        changed = False
        rounds += 1
        for path in list(stmt_paths(case["stmts"])):
            cand = json.loads(json.dumps(case))
            if not delete_at(cand["stmts"], path):
                continue
            if ok(cand):
                case = cand
                changed = True
                break
        if changed:
            continue
        for path in list(stmt_paths(case["stmts"])):
            cand = json.loads(json.dumps(case))
            if not unwrap_at(cand["stmts"], path):
                continue
            if ok(cand):
                case = cand
                changed = True
                break
    return case


def stmt_paths(stmts, prefix=()):
    """paths (tuples of indices/keys) to every statement list element"""
    for i, s in enumerate(stmts):
        p = prefix + (i,)
        yield p
        t = s[0]
        if t in ("deffn", "for", "forin", "while"):
            yield from stmt_paths(s[3], p + (3,))
        elif t == "if":
            yield from stmt_paths(s[2], p + (2,))
            if s[3] is not None:
                yield from stmt_paths(s[3], p + (3,))
        elif t == "defblk":
            yield from stmt_paths([s[2]], p + ("B",))
        elif t == "blk":
            yield from stmt_paths(s[1], p + (1,))
            for j, (_, h) in enumerate(s[2]):
                yield from stmt_paths(h, p + (2, j, 1))
            if s[3] is not None:
                yield from stmt_paths(s[3], p + (3,))


def _resolve(stmts, path):
    """returns (container list, index) for a path"""
    cur = stmts
    i = 0
    while i < len(path) - 1:
        node = cur[path[i]]
        key = path[i + 1]
        if key == "B":
            return None, None      # the block of a defblk: not deletable
        if key == 2 and node[0] == "blk":
            cur = node[2][path[i + 2]][1]
            i += 4
            continue
        cur = node[key]
        i += 2
    return cur, path[-1]


def delete_at(stmts, path):
    cont, idx = _resolve(stmts, path)
    if cont is None or not isinstance(cont, list) or idx >= len(cont):
        return False
    del cont[idx]
    return True


def unwrap_at(stmts, path):
    cont, idx = _resolve(stmts, path)
    if cont is None or idx >= len(cont):
        return False
    s = cont[idx]
    if s[0] == "blk":
        if s[2] or s[3] is not None:
            # drop handlers / finally one at a time
            if s[2]:
                s[2].pop()
                return True
            s[3] = None
            return True
        cont[idx:idx + 1] = s[1]
        return True
    if s[0] in ("for", "forin", "while"):
        cont[idx:idx + 1] = s[3]
        return True
    return False
