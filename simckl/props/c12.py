"""C12 -- results do not depend on hash seed, process or construction order.

The property is a determinism claim, so the simulator owns the sources of
nondeterminism and varies only them:
  S1 hash seed / process: the same batch of generated programs is executed
     in h fresh interpreter processes with distinct PYTHONHASHSEED values;
  S2 construction order: variants that build the same logical set/map by
     inserting its elements in a permuted order;
  S3 history: variants that insert extra elements and remove them again.
Oracle: the observable digest (stdout text, rendered result, error) of a
program is the same in every (process, variant).  Nothing is compared with
an expected value.  See DESIGN.md section 4.5.
"""
import hashlib
import json
import os
import random
import subprocess
import sys
import time

from ..sut import HarnessError

ID = "C12"
TIERS = {
    "quick": {"seeds": 8, "per_sink": 3, "random": 1200, "wall_s": 200},
    "thorough": {"seeds": 32, "per_sink": 12, "random": 12000,
                 "wall_s": 3000},
}
RULE = ("programs = container construction x sink; the sink catalogue "
        "(every iteration/comprehension/spread/destructuring/rendering/"
        "conversion/operator form and every function of the legacy base "
        "environment and bundled modules with the container in each "
        "argument position, de-duplication of equal containers, tie-making "
        "callbacks, mutate-and-observe sequences) is enumerated completely "
        "for a string, a mixed and a numeric set and map and combined "
        "randomly with containers of strings, colliding ints, decimals, "
        "mixed scalars and nested lists; every program has "
        "3 variants (canonical, permuted insertion order, insert-and-delete "
        "history) and runs in h fresh processes under distinct "
        "PYTHONHASHSEEDs; one evaluation = one (program variant, process) "
        "execution; distinct = distinct programs; non-trivial = at least two "
        "different raw internal orders of the container were actually "
        "observed across its seeds/variants (the adversary moved)")
REAL = ["the whole interpreter (lexer, parser, nodes, values, functions, "
        "bundled modules) in fresh processes"]
STUBBED = ["PYTHONHASHSEED of each worker process (chosen by the driver)",
           "clock (constant)", "PRNG state (reset per program)",
           "stdout/stdin objects", "file system (secure interpreter: none)"]
ASSUMPTIONS = [
    "two spellings of equal values (1 and 1.0) are never put in one "
    "container: which representative a set keeps is not an iteration-order "
    "question",
    "containers mixing ints/decimals with dates are reported under their "
    "own signature (known intransitive cross-kind ordering)",
    "a program failing identically everywhere is fine",
]
NEEDS_STEPS = False

STRS = ["a", "b", "c", "aa", "ab", "ba", "zz", "hello", "x1", "Key", "key",
        "k2", "world", "Q", "m", "n0", "foo", "bar", "baz", "qux"]
INTS = [0, 8, 16, 24, 32, 1, 9, 17, 7, 100, 64, 128]
DECS = ["0.1", "0.2", "0.3", "0.7", "1.1", "2.2", "3.3", "0.5", "2.5", "7.7",
        "10000000000000000.0", "0.0000001", "123456789.123"]
MIXED = ["'s1'", "'s2'", "3", "11", "TRUE", "FALSE", "NULL", "2.5",
         "[1, 'a']", "'t'", "-4", "[]"]
FILLERS = ["1", "'a'", "[1, 2]", "fn(x) x", "fn(a, b) a", "TRUE", "2",
           "'b'", "<<1>>", "0",
           # callbacks under which distinct elements tie
           "fn(x) 1", "fn(x) length(string(x))", "fn(a, b) 0",
           "fn(x) TRUE", "fn(a, b) length(string(a)) - length(string(b))"]
VALS = ["1", "2", "'v'", "'w'", "[1]", "3", "TRUE", "'a'"]

SKIP_FUNCS = {"bind_native", "set_seed", "run", "execute", "timestamp",
              "now", "date", "random", "choice", "sample", "shuffle",
              "info", "read", "readln", "read_all"}


def lit(x):
    return "'" + x + "'" if isinstance(x, str) else str(x)


def syntactic_sinks(kind):
    """every iteration / conversion / spread / destructuring / rendering
    path, as source templates over the container variable c"""
    S = []

    def add(name, src):
        S.append((name, src))
    add("for", "for x in c do print(string(x) + '|'); end")
    add("list-compr", "[x for x in c]")
    add("list-compr-if", "[x for x in c if x != NULL]")
    add("set-compr", "string(<<[x] for x in c>>)")
    add("map-compr", "<<<string(x) => x for x in c>>>")
    add("compr-parallel", "[[x, y] for x in c also for y in [1, 2, 3]]")
    add("compr-product", "[[x, y] for x in c for y in c]")
    add("set-compr-parallel", "<<[x, y] for x in c also for y in c>>")
    add("set-compr-product", "<<[x, y] for x in c for y in [1, 2]>>")
    add("spread-list", "[0, ...c, 0]")
    add("spread-call", "do def f(args...) args; f(...c); end")
    add("spread-call-native", "string(...c)")
    add("destructure-def", "do def [p, q, r] = c; [p, q, r]; end")
    add("destructure-assign",
        "do def p = 0; def q = 0; [p, q] = c; [p, q]; end")
    add("string", "string(c)")
    add("print", "print(c)")
    add("println", "println(c)")
    add("interpolate", "s('{c}')")
    add("interpolate-spec", "[s('{c#40}'), s('{c#-40}'), s('{c#3}'), "
        "s('{c#.2}'), s('{c#x}'), s('{c#05}')]")
    add("sprintf", "sprintf('{0}', c)")
    add("sprintf-spec", "[sprintf('{0#40}', c), sprintf('{0#-3}', c), "
        "sprintf('{0#.1}', c)]")
    add("list", "list(c)")
    add("set", "set(c)")
    add("map", "map(c)")
    add("object", "object(c)")
    add("boolean-int", "[boolean(c), int(c), length(c)]")
    add("add", "c + c2")
    add("add-rev", "c2 + c")
    add("sub", "c - c2")
    add("mul", "c * 2")
    add("in", "[x in c for x in ['a', 'zz', 0, NULL]]")
    add("eq", "[c == c2, c == c, c != c2, c < c2, c >= c2]")
    add("as-element", "<<c, c2>>")
    add("as-key", "<<<c => 1, c2 => 2>>>")
    add("nested-list", "[[c], [c2, c]]")
    add("pipeline", "c !> list() !> reverse()")
    add("while-pop", "do def l = list(c); def out = []; while length(l) > "
        "0 do out !> append(l[0]); l = rest(l); end; out; end")
    add("first-last", "[first(list(c)), last(list(c))]")
    add("error-value", "error c")
    add("catch-value", "do error c; catch c2 'no'; catch c 'yes'; end")
    add("json-ish", "string([c, <<<1 => c>>>])")
    add("list-plus", "[[0] + c, list(c2) + c, [x for x in [0] + c]]")
    add("list-plus-assign", "do def l_ = [0]; l_ += c; l_ += c2; l_; end")
    add("module-object-members",
        "do require Math; require List as Lx; [ls(Math), string(Lx), "
        "[k for k in keys Lx]]; end")
    add("module-object-for",
        "do require Stat; def o_ = []; for k in keys Stat do "
        "o_ !> append(k); end; o_; end")
    # a string that was compared, then modified in place, then put into a
    # set next to a string equal to its old text
    add("mutated-string-in-set",
        "do def e_ = 'm0'; def w_ = sorted([e_, 'a', 'm1']); e_[1] = '1'; "
        "def t_ = <<e_, 'm0', 'zz', 'm1x'>>; [w_, string(t_), list(t_), "
        "[x for x in t_]]; end")
    add("mutated-string-as-key",
        "do def e_ = 'k0'; def w_ = <<<e_ => 1>>>; string(w_); e_[1] = '9'; "
        "def t_ = <<<e_ => 1, 'k0' => 2, 'k9x' => 3>>>; "
        "[string(t_), [k for k in keys t_]]; end")
    add("error-in-call", "do def f_(a, b) error 'x'; f_(c, c2); end")
    add("error-in-nested-call", "do def g_(a) 1 / 0; def f_(a) g_([a]); "
        "f_(c); end")
    add("for-destructure-elements", "for [p, q, r] in [c, c2, c3] do "
        "print(string(p) + ',' + string(q) + ',' + string(r) + '|'); end")
    add("for-destructure-set-of", "for [p, q] in <<c, c2>> do "
        "print(string(p) + ',' + string(q) + '|'); end")
    # comprehensions whose result or side effects depend on the order in
    # which the source is enumerated (colliding keys, output, state)
    add("map-compr-colliding", "<<<length(string(x)) => x for x in c>>>")
    add("map-compr-colliding2", "<<<substr(string(x), 0, 1) => x "
        "for x in c>>>")
    add("set-compr-effect", "<<print(string(x) + '|') for x in c>>")
    add("list-compr-effect", "[print(string(x) + '|') for x in c]")
    add("map-compr-effect", "<<<string(x) => print(string(x) + '|') "
        "for x in c>>>")
    add("compr-state", "do def acc = []; def r = <<acc !> append(x) "
        "!> length() for x in c>>; acc; end")
    add("set-compr-product-effect", "<<print(string(x) + string(y) + '|') "
        "for x in c for y in c2>>")
    add("set-compr-parallel-effect", "<<print(string(x) + string(y) + '|')"
        " for x in c also for y in c2>>")
    add("list-compr-product-effect", "[print(string(x) + string(y) + '|') "
        "for x in c for y in c2]")
    add("compr-first-error", "[1 / (length(string(x)) - 2) for x in c]")
    # c3 is the same logical container as c, always built in one fixed
    # order: equal containers must be ONE element / ONE key however built
    add("dedup-set", "[length(<<c, c3>>), c3 in <<c>>, c in [c3], c == c3]")
    add("dedup-key", "[length(<<<c => 1, c3 => 2>>>), <<<c => 1>>>[c3, "
        "'miss'], string(<<<c => 1, c3 => 2>>>)]")
    add("dedup-nested", "[length(<<[c], [c3]>>), length(<<<<c>>, <<c3>>>>), "
        "find([[c]], [c3])]")
    add("unique-equal", "[length(unique([c, c3, c])), length(set([c, c3]))]")
    add("sorted-key-ties", "sorted(c, key = fn(x) length(string(x)))")
    add("sorted-cmp-ties", "sorted(c, cmp = fn(a, b) 0)")
    add("sorted-both", "sorted(list(c), key = fn(x) 1)")
    add("max-min-ties", "[max(list(c), key = fn(x) 1), min(list(c), "
        "key = fn(x) 1)]")
    if kind == "map":
        add("for-keys", "for k in keys c do print(string(k) + '|'); end")
        add("for-values", "for v in values c do print(string(v) + '|'); "
            "end")
        add("for-entries", "for e in entries c do print(string(e) + '|'); "
            "end")
        add("for-destructured",
            "for [k, v] in entries c do print(string(k) + '=' + string(v) "
            "+ '|'); end")
        add("map-compr-keys-colliding",
            "<<<length(string(k)) => k for k in keys c>>>")
        add("set-compr-keys-effect",
            "<<print(string(k) + '|') for k in keys c>>")
        add("map-compr-values-effect",
            "<<<string(v) => print(string(v) + '|') for v in values c>>>")
        add("set-compr-entries-effect",
            "<<print(string(e) + '|') for e in entries c>>")
        add("compr-keys", "[k for k in keys c]")
        add("compr-values", "[v for v in values c]")
        add("compr-entries", "[e for e in entries c]")
        add("map-compr-entries", "<<<e[1] => e[0] for e in entries c>>>")
        add("ls-map", "ls(c)")
        add("spread-call-named",
            "do def f(a = 0, b = 0, ab = 0, key = 0, rest...) "
            "[a, b, ab, key, rest]; f(...c); end")
        add("object-members", "do def o = object(c); string(o); end")
        add("object-for", "do def o = object(c); [k for k in keys o]; end")
        add("object-entries",
            "do def o = object(c); [e for e in entries o]; end")
        add("deref-default", "[c['a', 'dflt'], c['nope', 'dflt']]")
        add("put-remove", "do put(c, 'zzz', 1); remove(c, 'zzz'); "
            "string(c); end")
        # observe, change through every mutation path, observe again
        add("observe-assign-observe", "do def a_ = string(c); c['zq'] = 1; "
            "c['A0'] = 2; [a_, string(c), [...c], string(object(c))]; end")
        add("observe-put-observe", "do def a_ = [...c]; put(c, 'zq', 1); "
            "c['A0'] = 2; remove(c, 'zq'); [a_, [...c], string(c)]; end")
        add("observe-compound", "do def a_ = string(c); c['zq'] = 1; "
            "c['zq'] += 1; [a_, string(c), [k for k in keys c]]; end")
    else:
        # a loop that adds elements to the very set it iterates
        add("for-growing-set",
            "do def out = []; for x in c do if length(c) < 9 then do "
            "append(c, string(x) + 'n1'); append(c, string(x) + 'n2'); end; "
            "out !> append(x); end; [out, string(c)]; end")
        add("map-from-set-of-pairs", "map(<<['k', x] for x in c>>)")
        add("map-from-set-of-pairs2",
            "map(set([[length(string(x)), x] for x in c]))")
        add("object-from-set-of-pairs",
            "object(set([['k', x] for x in c]))")
        add("for-destructured",
            "for [p, q] in <<[x, 1] for x in c>> do print(string(p) + "
            "'|'); end")
        add("append-remove", "do append(c, 'zzz'); remove(c, 'zzz'); "
            "string(c); end")
        add("set-of-sets", "string(<<c, c2, <<c>>>>)")
    return S


def function_names():
    """every function of the legacy base environment (bundled modules are
    all imported unqualified there)"""
    from ckl.interpreter import Interpreter
    it = Interpreter(True, True)
    env = it.base_environment
    return [n for n in env.getSymbols()
            if env.get(n).isFunc() and n not in SKIP_FUNCS
            and not n.startswith("checkerlang")]


def function_sinks(names, rng=None):
    S = []
    shapes = [("1", "{f}(c)"), ("2a", "{f}(c, {A})"), ("2b", "{f}({A}, c)"),
              ("3a", "{f}(c, {A}, {B})"), ("3b", "{f}({A}, c, {B})"),
              ("3c", "{f}({A}, {B}, c)"), ("2c", "{f}(c, c2)"),
              ("cb", "{f}(c, fn(x) string(x))"),
              ("cb2", "{f}(fn(x) x != NULL, c)")]
    for n in names:
        for tag, tpl in shapes:
            S.append((f"fn:{n}:{tag}", tpl.replace("{f}", n)))
    return S


def make_container(rng, kind, cls):
    """returns the elements as literal sources"""
    elems = _make_container(rng, kind, cls)
    if kind == "map":
        # a bare NULL key in a map literal is read as the string 'NULL'
        # (implicit string keys), so the variants would not be equal maps
        elems = [e for e in elems if e != "NULL"] or ["'only'"]
    return elems


def _make_container(rng, kind, cls):
    if cls == "str":
        elems = [lit(x) for x in rng.sample(STRS, rng.choice(
            [2, 3, 4, 5, 6, 8, 10, 12, 17, 20]))]
    elif cls == "int":
        elems = [lit(x) for x in rng.sample(INTS, rng.randrange(2, 9))]
    elif cls == "dec":
        elems = rng.sample(DECS, rng.randrange(3, 9))
    elif cls == "mixed":
        elems = rng.sample(MIXED, rng.randrange(2, 9))
    elif cls == "bool":
        elems = ["TRUE", "FALSE"] + rng.sample(["'a'", "1", "NULL"],
                                               rng.randrange(0, 3))
    elif cls == "datemix":
        elems = ["date('20200101')", "9", "10"] + rng.sample(
            ["date('19990101')", "2", "100", "'s'", "date('20200102')"],
            rng.randrange(0, 4))
    else:
        raise ValueError(cls)
    return elems


def construct(kind, elems, vals, how, extra):
    """source that defines c (kind set/map) from elems in the given order"""
    if kind == "set":
        if how == "literal":
            return "def c = <<" + ", ".join(elems) + ">>"
        if how == "append":
            return "def c = <<>>; " + "; ".join(
                f"append(c, {e})" for e in elems)
        if how == "fromlist":
            return "def c = set([" + ", ".join(elems) + "])"
        if how == "history":
            parts = ["def c = <<>>"]
            for e in extra:
                parts.append(f"append(c, {e})")
            for e in elems:
                parts.append(f"append(c, {e})")
            for e in extra:
                parts.append(f"remove(c, {e})")
            return "; ".join(parts)
    else:
        pairs = list(zip(elems, vals))
        if how == "literal":
            return "def c = <<<" + ", ".join(
                f"{k} => {v}" for k, v in pairs) + ">>>"
        if how == "append":
            return "def c = <<<>>>; " + "; ".join(
                f"c[{k}] = {v}" for k, v in pairs)
        if how == "fromlist":
            return "def c = map([" + ", ".join(
                f"[{k}, {v}]" for k, v in pairs) + "])"
        if how == "history":
            parts = ["def c = <<<>>>"]
            for e in extra:
                parts.append(f"c[{e}] = 0")
            for k, v in pairs:
                parts.append(f"c[{k}] = {v}")
            for e in extra:
                parts.append(f"remove(c, {e})")
            return "; ".join(parts)
    raise ValueError(how)


def make_program(rng, pid_, sink, tpl, kind, cls):
    elems = make_container(rng, kind, cls)
    vals = {e: rng.choice(VALS) for e in elems}
    # second container sharing some elements
    e2 = rng.sample(elems, max(1, len(elems) // 2))
    if cls in ("str", "mixed", "bool", "datemix"):
        e2 = e2 + ["'other'"]
    elif cls == "dec":
        e2 = e2 + ["9.25"]
    else:
        e2 = e2 + ["5"]
    A, B = rng.choice(FILLERS), rng.choice(FILLERS)
    body = tpl.replace("{A}", A).replace("{B}", B)
    extras = [x for x in (["'pad1'", "'pad2'", "'pad3'", "40", "48", "'p'"])
              if x not in elems][:rng.randrange(2, 5)]
    variants = []
    orders = [list(elems)]
    p1 = list(elems)
    rng.shuffle(p1)
    if p1 == elems and len(elems) > 1:
        p1 = list(reversed(elems))
    orders.append(p1)
    p2 = list(reversed(elems))
    hows = [rng.choice(["literal", "literal", "fromlist", "append"]),
            rng.choice(["literal", "append", "fromlist"]), "history"]
    for order, how in zip([orders[0], orders[1], p2], hows):
        csrc = construct(kind, order, [vals[e] for e in order], how, extras)
        c2 = construct(kind, e2, [vals.get(e, "1") for e in e2],
                       "literal", []).replace("def c =", "def c2 =", 1)
        c2 += "; " + construct(kind, orders[0],
                               [vals[e] for e in orders[0]], "literal",
                               []).replace("def c =", "def c3 =", 1)
        # construction on line 1, second container on line 2, the sink on
        # line 3: reported positions are the same for every variant
        variants.append(f"{csrc};\n{c2};\n{body}")
    return {"id": pid_, "sink": sink, "kind": kind, "cls": cls,
            "variants": variants}


def build_batch(base_seed, tier):
    from .. import sut
    sut.load()
    cfg = TIERS[tier]
    rng = random.Random(hashlib.sha256(
        f"{base_seed}/C12/{tier}".encode()).digest())
    names = function_names()
    progs = []
    n = 0
    for kind in ("set", "map"):
        sinks = syntactic_sinks(kind) + function_sinks(names)
        for sink, tpl in sinks:
            for rep in range(cfg["per_sink"]):
                # every sink sees a string container, a mixed one and a
                # numeric one; further repetitions are drawn at random
                cls = ["str", "mixed", rng.choice(["dec", "int"])][rep] \
                    if rep < 3 else rng.choice(
                        ["str", "str", "int", "mixed", "bool", "dec"])
                progs.append(make_program(rng, n, sink, tpl, kind, cls))
                n += 1
    allsinks = {k: syntactic_sinks(k) + function_sinks(names)
                for k in ("set", "map")}
    for _ in range(cfg["random"]):
        kind = rng.choice(["set", "map"])
        sink, tpl = rng.choice(allsinks[kind])
        if rng.random() < 0.5:
            sink, tpl = rng.choice(syntactic_sinks(kind))
        cls = rng.choice(["str", "str", "int", "mixed", "mixed", "bool",
                          "datemix", "dec"])
        progs.append(make_program(rng, n, sink, tpl, kind, cls))
        n += 1
    # which file wins when several directories of the module path hold a
    # module of that name must not depend on anything but the path order
    for j in range(6 if tier == "quick" else 40):
        dirs = rng.sample(["/sim/pA", "/sim/pB", "/sim/pC", "/sim/pD",
                           "/sim/pE", "/sim/pF", "/sim/pG"],
                          rng.randrange(2, 7))
        have = rng.sample(dirs, rng.randrange(2, len(dirs) + 1))
        v = ("require pm; [pm->which, pm->n, ls(pm), string(pm)]")
        progs.append({"id": n, "sink": "module-path-order", "kind": "set",
                      "cls": "str", "variants": [v, v, v],
                      "modpath": dirs, "have": have})
        n += 1
    return progs, len(names)


# ------------------------------------------------------------------------
# worker: one fresh process, one hash seed, the whole batch

def run_programs(progs):
    import tempfile
    import shutil
    from .. import seams, steps
    from ..world import World, SimOut, SimIn
    from .. import sut
    sut.load()
    from ckl.interpreter import Interpreter
    from ckl.functions import Environment
    from ckl.errors import CklRuntimeError, CklSyntaxError
    from ckl.values import ValueSet, ValueMap
    import ckl.functions as F
    root = tempfile.mkdtemp(prefix="simckl-c12-")
    out = {}
    try:
        w = World(root)
        seams.install(w, 0.5)
        clock = steps.StepClock(None, budget=300_000)
        clock.start()
        it = None
        try:
            for i, p in enumerate(progs):
                if it is None or i % 50 == 0 or p.get("modpath"):
                    it = Interpreter(True, True)
                if p.get("modpath"):
                    from ckl.values import ValueList, ValueString
                    lst = ValueList()
                    for d in p["modpath"]:
                        lst.addItem(ValueString(d))
                        w.put_dir(d)
                    for d in p["have"]:
                        w.put_file(d + "/pm.ckl", "def which = '" + d +
                                   "';\ndef n = " +
                                   str(p["have"].index(d)) + ";\n")
                    it.base_environment.put("checkerlang_module_path", lst)
                res = []
                for src in p["variants"]:
                    sim_out = SimOut(w, "o")
                    it.setStandardOutput(sim_out)
                    it.setStandardInput(SimIn(w, "", "i"))
                    F.seed = 0.5
                    w.trace.clear()
                    env = Environment()
                    clock.begin_op()
                    v = None
                    try:
                        v = it.interpret(src, "p", env)
                        obs = ("val", _s(v))
                    except CklRuntimeError as e:
                        obs = ("rt", _s(e.value), _s(e.msg), _s(e.pos),
                               tuple(_s(x) for x in (e.stacktrace or [])),
                               _s(e))
                    except CklSyntaxError as e:
                        obs = ("syn", _s(e.msg))
                    except steps.StepBudgetExceeded:
                        obs = ("budget",)
                    except RecursionError:
                        obs = ("host", "RecursionError")
                    except Exception as e:   # noqa: BLE001
                        obs = ("host", type(e).__name__, _s(e)[:200])
                    text = sim_out.text()
                    raw = ""
                    cv = env.map.get("c")
                    if isinstance(cv, (ValueSet, ValueMap)):
                        try:
                            raw = "|".join(_s(x) for x in cv.value)
                        except Exception:   # noqa: BLE001
                            raw = "?"
                    echo = None
                    if p["id"] % 40 == 0 and obs[0] == "val" and \
                            v is not None:
                        # what the REPL host would echo for this result
                        echo = repl_echo(w, src)
                    obs = obs + (("echo", echo),)
                    d = hashlib.sha256(repr((obs, text)).encode(
                        "utf-8", "backslashreplace")).hexdigest()[:16]
                    res.append([d, hashlib.sha256(raw.encode(
                        "utf-8", "backslashreplace")).hexdigest()[:8],
                        repr((obs, text))[:300]])
                out[str(p["id"])] = res
        finally:
            clock.stop()
            seams.uninstall()
    finally:
        shutil.rmtree(root, ignore_errors=True)
    return out


def repl_echo(w, src):
    """run one program through the real REPL loop and return what it
    prints (the REPL's echo of results is a host-level rendering path)"""
    from ..replhost import ReplHost, ReplDied
    from ..session import Sim

    class _S:            # the little of Sim that ReplHost needs
        pass
    sim = _S()
    sim.w = w
    sim.outs, sim.ins, sim.inst = {}, {}, {}
    h = ReplHost(sim, "R", True, True, None)
    try:
        if not h.start():
            return "REPL-DID-NOT-START"
        line = " ".join(src.split("\n"))
        try:
            calls, printed = h.send(line)
            if h.prompts and h.prompts[-1].startswith("+"):
                c2, p2 = h.send(")")
                printed = printed + p2
        except ReplDied as e:
            return "REPL-DIED " + type(e.exc).__name__
        return tuple(printed)
    finally:
        h.stop()


def _s(v):
    try:
        return str(v)
    except Exception as e:   # noqa: BLE001
        return f"<unprintable {type(e).__name__}>"


def worker_main(argv):
    batch, outp = argv[0], argv[1]
    with open(batch) as f:
        progs = json.load(f)
    res = run_programs(progs)
    with open(outp, "w") as f:
        json.dump({"hashseed": os.environ.get("PYTHONHASHSEED"),
                   "results": res}, f)
    return 0


def spawn(progs, hashseeds, scratch, tag, timeout=1800):
    """run the batch in fresh interpreter processes, one per hash seed"""
    from ..driver import VERIF
    from ..sut import SRC
    batch = os.path.join(scratch, f"c12-batch-{tag}.json")
    with open(batch, "w") as f:
        json.dump(progs, f)
    procs = []
    for hs in hashseeds:
        outp = os.path.join(scratch, f"c12-out-{tag}-{hs}.json")
        env = dict(os.environ)
        env.update({"PYTHONHASHSEED": str(hs), "PYTHONPATH": VERIF,
                    "SIMCKL_SRC": SRC, "TZ": "UTC",
                    "PYTHONDONTWRITEBYTECODE": "1"})
        p = subprocess.Popen([sys.executable, "-m", "simckl", "worker",
                              "C12", batch, outp], env=env, cwd=VERIF,
                             stdout=subprocess.PIPE, stderr=subprocess.PIPE,
                             text=True)
        procs.append((hs, p, outp))
    results = {}
    for hs, p, outp in procs:
        try:
            so, se = p.communicate(timeout=timeout)
        except subprocess.TimeoutExpired:
            p.kill()
            raise HarnessError(f"C12 worker hashseed={hs} timed out")
        if p.returncode != 0 or not os.path.exists(outp):
            raise HarnessError(f"C12 worker hashseed={hs} failed rc="
                               f"{p.returncode}: {se[-1500:]} {so[-500:]}")
        with open(outp) as f:
            results[hs] = json.load(f)["results"]
        os.remove(outp)
    os.remove(batch)
    return results


def signature(p):
    if p["cls"] == "datemix":
        return f"{ID}:mixed-int-date-order"
    sink = p["sink"]
    if sink.startswith("fn:"):
        sink = "fn:" + sink.split(":")[1]
    return f"{ID}:order-leak:{sink}:{p['kind']}"


def compare(progs, results):
    """returns (diffs, moved) : programs whose digests differ, and the set
    of program ids whose container's raw order moved"""
    diffs = []
    moved = set()
    for p in progs:
        key = str(p["id"])
        digs = {}
        raws = set()
        for hs, res in results.items():
            for vi, (d, raw, obs) in enumerate(res[key]):
                digs.setdefault(d, []).append((hs, vi, obs))
                raws.add(raw)
        if len(raws) > 1:
            moved.add(p["id"])
        if len(digs) > 1:
            diffs.append((p, digs))
    return diffs, moved


def describe(p, digs):
    groups = sorted(digs.values(), key=lambda g: (-len(g), g[0]))
    a, b = groups[0][0], groups[1][0]
    by_seed = {}
    for g in groups:
        for hs, vi, obs in g:
            by_seed.setdefault(hs, set()).add(obs)
    within = any(len(v) > 1 for v in by_seed.values())
    v0 = {}
    for g in groups:
        for hs, vi, obs in g:
            if vi == 0:
                v0.setdefault(obs, []).append(hs)
    adversary = []
    if len(v0) > 1:
        adversary.append("hash seed")
    if within:
        adversary.append("construction order/history")
    return (f"sink {p['sink']} on a {p['cls']} {p['kind']}: depends on "
            f"{' and '.join(adversary) or 'process'}; e.g. hashseed {a[0]} "
            f"variant {a[1]} -> {a[2]} but hashseed {b[0]} variant {b[1]} "
            f"-> {b[2]}; program (variant {a[1]}): "
            f"`{p['variants'][a[1]]}`")


def hash_seeds(base_seed, n):
    rng = random.Random(base_seed * 7919 + 13)
    out = [0, 1, 4242]
    while len(out) < n:
        x = rng.randrange(1, 2**32 - 1)
        if x not in out:
            out.append(x)
    return out[:n]


def custom_check(tier, base_seed, t0):
    from .. import driver
    cfg = TIERS[tier]
    scratch = driver.scratch_root()
    progs, nfuncs = build_batch(base_seed, tier)
    gen_digest = hashlib.sha256(json.dumps(progs, sort_keys=True).encode()
                                ).hexdigest()[:16]
    seeds = hash_seeds(base_seed, cfg["seeds"])
    # the generator itself must not depend on the hash seed: regenerate in a
    # fresh interpreter under another seed and compare (determinism test)
    chk = subprocess.run(
        [sys.executable, "-c",
         "import sys, json, hashlib; sys.path.insert(0, %r); "
         "from simckl.props import c12; p, n = c12.build_batch(%d, %r); "
         "print(hashlib.sha256(json.dumps(p, sort_keys=True).encode())"
         ".hexdigest()[:16])" % (driver.VERIF, base_seed, tier)],
        env=dict(os.environ, PYTHONHASHSEED="987", PYTHONPATH=driver.VERIF),
        capture_output=True, text=True, cwd=driver.VERIF)
    if chk.returncode != 0 or chk.stdout.strip() != gen_digest:
        print("HARNESS-ERROR program generator is not deterministic across "
              f"hash seeds: {gen_digest} vs {chk.stdout.strip()} "
              f"{chk.stderr[-500:]}")
        return 2
    # S1 x S2 x S3
    chunks = max(1, min(16 // max(1, len(seeds) // 8), 4))
    size = (len(progs) + chunks - 1) // chunks
    results = {hs: {} for hs in seeds}
    try:
        # all seeds in parallel; the batch split to use the cores
        parts = [progs[i:i + size] for i in range(0, len(progs), size)]
        import concurrent.futures as cf
        with cf.ThreadPoolExecutor(len(parts)) as ex:
            futs = [ex.submit(spawn, part, seeds, scratch, f"{i}")
                    for i, part in enumerate(parts)]
            for f in futs:
                r = f.result()
                for hs in seeds:
                    results[hs].update(r[hs])
    except HarnessError as e:
        print(f"HARNESS-ERROR {e}")
        return 2
    diffs, moved = compare(progs, results)
    # same seed twice must agree exactly (determinism of the harness)
    sample = progs[:: max(1, len(progs) // 60)][:60]
    try:
        again = spawn(sample, seeds[:2], scratch, "det")
    except HarnessError as e:
        print(f"HARNESS-ERROR {e}")
        return 2
    for hs in seeds[:2]:
        for p in sample:
            a = [x[0] for x in again[hs][str(p["id"])]]
            b = [x[0] for x in results[hs][str(p["id"])]]
            if a != b:
                print(f"HARNESS-ERROR program {p['id']} under hashseed {hs} "
                      f"is not reproducible in a second fresh process: "
                      f"`{p['variants'][0]}`")
                return 2
    # confirm every difference in brand-new processes, one program at a time
    known = driver.load_known()
    by_sig = {}
    for p, digs in diffs:
        by_sig.setdefault(signature(p), []).append((p, digs))
    exit_code = 0
    nviol = 0
    reported = []
    for sig in sorted(by_sig):
        lst = by_sig[sig]
        lst.sort(key=lambda pd: len(pd[0]["variants"][0]))
        p, digs = lst[0]
        hs_pair = sorted({g[0][0] for g in digs.values()})[:2]
        if len(hs_pair) < 2:
            hs_pair = seeds[:2]
        case = {"program": p, "hashseeds": hs_pair + [s for s in seeds
                                                      if s not in hs_pair
                                                      ][:2]}
        res = run_case(case, scratch)
        if not res["violations"]:
            print(f"note: difference for {sig} did not reproduce in "
                  f"isolation (cross-program leakage in a worker?)")
            print("HARNESS-ERROR unconfirmed difference")
            return 2
        v = res["violations"][0]
        kf = driver.known_match(ID, sig, known)
        if kf is not None:
            print(f"KNOWN-FINDING: property={ID} {kf['what']} [{sig}] "
                  f"({len(lst)} programs)")
            reported.append({"sig": sig, "known": True,
                             "programs": len(lst)})
            continue
        nviol += 1
        case["seed"] = base_seed
        path = driver.write_replay(ID, case, v, tier, True)
        print(f"  clause={v['clause']} sig={sig} programs={len(lst)}\n"
              f"    {v['detail']}")
        print(f"VIOLATION property={ID} replay={path}")
        reported.append({"sig": sig, "known": False, "programs": len(lst),
                         "replay": path})
        exit_code = 1
    wall = time.time() - t0
    evals = len(progs) * 3 * len(seeds)
    samples = []
    for p in progs[:2] + progs[-1:]:
        samples.append({"program": p, "observed": {
            str(hs): results[hs][str(p["id"])] for hs in seeds[:2]}})
    sinks = sorted({p["sink"].split(":")[0] + ":" + p["sink"].split(":")[1]
                    if p["sink"].startswith("fn:") else p["sink"]
                    for p in progs})
    ev = {
        "property_id": ID, "tier": tier, "seed": base_seed,
        "level": "exploration",
        "coverage": {
            "evaluations": evals,
            "distinct_nontrivial": len(moved),
            "rule": RULE, "samples": samples,
            "programs": len(progs), "variants_per_program": 3,
            "hash_seeds": seeds, "fresh_processes": len(seeds) * chunks,
            "programs_whose_raw_order_moved": len(moved),
            "programs_with_differing_observables": len(diffs),
            "sinks_enumerated": len(sinks),
            "library_functions_enumerated": nfuncs,
            "runs_per_hour": int(evals / max(wall, 1e-6) * 3600),
            "simulated_time_s": 0,
            "faults_fired": {"hashseed": len(seeds),
                             "order(permuted insertion)": len(progs),
                             "order(insert-delete history)": len(progs)},
            "determinism": {"generator_digest": gen_digest,
                            "generator_regenerated_under_other_hashseed":
                            True,
                            "programs_rerun_in_second_fresh_process":
                            len(sample) * 2, "mismatches": 0},
            "reported": reported,
            "components_real": REAL, "components_stubbed": STUBBED,
        },
        "assumptions": ASSUMPTIONS, "wall_s": round(wall, 2),
        "violations": nviol,
    }
    if len(moved) < 2:
        print("HARNESS-ERROR the adversary never moved a container's raw "
              "order: nothing was tested")
        return 2
    if not os.environ.get("SIMCKL_NO_EVIDENCE"):
        d = os.path.join(driver.VERIF, "evidence")
        os.makedirs(d, exist_ok=True)
        tmp = os.path.join(d, f".{ID}.json.tmp")
        with open(tmp, "w") as f:
            json.dump(ev, f, indent=1, sort_keys=True, default=str)
        os.replace(tmp, os.path.join(d, f"{ID}.json"))
    print(f"{ID} {tier}: programs={len(progs)} evaluations={evals} "
          f"hashseeds={len(seeds)} raw_order_moved={len(moved)} "
          f"differing={len(diffs)} violations={nviol} wall={wall:.1f}s "
          f"exit={exit_code}")
    return exit_code


def run_case(case, root):
    """replay of one program: fresh processes under the recorded seeds"""
    p = case["program"]
    seeds = case["hashseeds"]
    os.makedirs(root, exist_ok=True)
    results = spawn([p], seeds, root, f"one-{os.getpid()}-{p['id']}")
    diffs, moved = compare([p], results)
    res = {"violations": [], "probes": {}, "counters": {}, "fired": {},
           "digest": "", "fp": str(p["id"]), "nontrivial": bool(moved),
           "steps": 0, "nops": 1, "evals": 3 * len(seeds)}
    if diffs:
        res["violations"].append({
            "clause": "same-observable-everywhere", "sig": signature(p),
            "detail": describe(p, diffs[0][1])})
    return res


def _mut(name, file, old, new, count=1):
    return {"prop": ID, "name": name, "file": file, "old": old, "new": new,
            "count": count}


MUTANTS = [
    _mut("for-over-set-raw", "ckl/nodes.py",
         """        if lst.isSet():
            values = lst.getSortedItems()
            result = TRUE""",
         """        if lst.isSet():
            values = list(lst.value)
            result = TRUE"""),
    _mut("comprehension-set-raw", "ckl/nodes.py",
         """    elif collection.isSet():
        return collection.getSortedItems()""",
         """    elif collection.isSet():
        return list(collection.value)"""),
    _mut("comprehension-map-keys-raw", "ckl/nodes.py",
         """    elif collection.isMap() and what == "keys":
        return sorted(collection.value.keys())""",
         """    elif collection.isMap() and what == "keys":
        return list(collection.value.keys())"""),
    _mut("set-aslist-raw", "ckl/values.py",
         """        result = ValueList()
        for value in self.getSortedItems():
            result.addItem(value)
        return result

    def asSet(self):
        return self

    def isSet(self):""",
         """        result = ValueList()
        for value in self.value:
            result.addItem(value)
        return result

    def asSet(self):
        return self

    def isSet(self):"""),
    _mut("set-repr-raw", "ckl/values.py",
         """            + ", ".join([str(item) for item in self.getSortedItems()])""",
         """            + ", ".join([str(item) for item in self.value])"""),
    _mut("map-repr-raw", "ckl/values.py",
         """                    for key in self.getSortedKeys()""",
         """                    for key in self.value"""),
    _mut("destructuring-def-set-raw", "ckl/nodes.py",
         """        if value.isSet():
            values = value.getSortedItems()
        result = NULL""",
         """        if value.isSet():
            values = list(value.value)
        result = NULL"""),
    _mut("for-map-raw", "ckl/nodes.py",
         """            values = [(k, lst.value[k]) for k in sorted(lst.value.keys())]""",
         """            values = [(k, lst.value[k]) for k in lst.value.keys()]"""),
]
