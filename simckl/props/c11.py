"""C11 -- require binds exactly the requested names; each module runs once.

Generated module graphs on the simulated module store (location swarm with
shadowing), importer sessions using every import form in seeded order and
repetition (top level, inside functions, inside other modules, identifier /
string / string-variable module specs), module-store read faults and torn
reads; oracle = namespace model (must / must-not / may) checked through ls()
after every command, load ledger from the simulated stdout, shared module
state through every alias, isolation of module code from the importer,
cycles reported as errors.  See DESIGN.md section 4.4.
"""
from .. import lang
from ..history import run_history
from ..lang import Unspec
from ..session import MOD_HOME, make_model_store, model_run

ID = "C11"
TIERS = {
    "quick": {"runs": 5000, "wall_s": 150, "chunk": 50, "det": 40,
              "det_fresh": 12, "min_s": 40},
    "thorough": {"runs": 300000, "wall_s": 2400, "chunk": 200, "det": 200,
                 "det_fresh": 40, "min_s": 120},
}
RULE = ("each evaluation is one seeded importer session (4-28 commands) over "
        "a generated graph of <= 5 user modules (public/private constants "
        "and functions, a mutable state cell with accessors, LOAD mark, "
        "a public data definition the module re-assigns, dependencies in "
        "every import form (also guarded by catch all), optional importer-"
        "probe, optional top-level failure, optional 2-/3-cycle, optional "
        "second module differing only in case) on a simulated "
        "module store (home / 1-2 module-path directories with shadowing), "
        "with read faults and torn reads; importers are the session, "
        "functions (called repeatedly), other modules and caller-supplied "
        "environments; after every command the visible names, and on "
        "request the members of a module object, are compared with the "
        "namespace model and the stdout LOAD ledger with the load model; distinct = distinct (graph shape, "
        "sequence of import forms x modules); non-trivial = the same module "
        "was required at least twice through different forms or importers")
REAL = ["ckl.nodes.NodeRequire and all node evaluation", "ckl.parser",
        "ckl.functions (Environment, module cache/stack, FuncLambda, ls)",
        "ckl.interpreter.Interpreter", "bundled .ckl modules"]
STUBBED = ["file system (real-backed virtual FS: module store)",
           "pkgutil resource reads", "stdout object", "HOME"]
ASSUMPTIONS = [
    "names a module obtained through its own imports (module objects and "
    "imported symbols) MAY or may not be re-exported: ignored either way",
    "a torn read that ends at a statement boundary legitimately yields the "
    "module consisting of the delivered prefix",
    "the reference model (simckl/lang.py Machine.require/load) states the "
    "binding rules of C11",
]
REQUIRED_PROBES = {
    "quick": ["form_plain", "form_as", "form_unq", "form_imp",
              "cached_module_used", "same_module_two_forms",
              "private_member_attempt", "private_import_attempt",
              "importer_probe_called", "require_inside_function",
              "require_inside_module", "modulespec_string_literal",
              "modulespec_from_string_variable", "cycle_reported",
              "shadowed_module_resolved", "torn_read", "names_checked",
              "shared_state_two_aliases", "nested_load_completed",
              "scratch_env", "module_members_checked",
              "public_data_reassigned_then_required",
              "store_changed_mid_session"],
}
REQUIRED_PROBES["thorough"] = REQUIRED_PROBES["quick"]


def module_ir(rng, i, mid, deps, opts):
    ir = [["mark", "LOAD " + mid],
          ["def", f"_p{i}", rng.randrange(100, 200)],
          ["deffn", f"_h{i}", [], [["ret", rng.randrange(10)]]],
          ["def", "_st", 0],
          ["deffn", "bump", [], [["set", "_st", ["op", "+", ["v", "_st"], 1]],
                                 ["ret", ["v", "_st"]]]],
          ["deffn", "peek", [], [["ret", ["v", "_st"]]]],
          ["deffn", f"bump{i}", [],
           [["set", "_st", ["op", "+", ["v", "_st"], 1]],
            ["ret", ["v", "_st"]]]],
          ["deffn", f"peek{i}", [], [["ret", ["v", "_st"]]]]]
    for c in "ab"[:rng.randrange(1, 3)]:
        ir.append(["def", f"c{i}_{c}", rng.randrange(1000)])
    # a PUBLIC data definition that module code re-assigns: every require
    # must expose its current value
    ir.append(["def", f"cnt{i}", 0])
    ir.append(["deffn", f"inc{i}", [],
               [["set", f"cnt{i}", ["op", "+", ["v", f"cnt{i}"], 1]],
                ["ret", ["v", f"cnt{i}"]]]])
    ir.append(["deffn", f"f{i}_x", ["p"],
               [["ret", ["op", "+", ["v", "p"], rng.randrange(50)]]]])
    ir.append(["deffn", f"usepriv{i}", [],
               [["ret", ["op", "+", ["v", f"_p{i}"],
                         ["call", f"_h{i}", []]]]]])
    for (j, dep) in deps:
        form = rng.choice(["plain", "as", "unq", "imp", "guarded"])
        if form == "guarded":
            # the dependency may fail (cycle, broken module): this module
            # catches that and goes on loading
            ir.append(["blk", [["req", "plain", {"id": dep}, None],
                               ["mark", f"DEP-OK {mid}>{dep}"]],
                       [[None, [["mark", f"DEP-FAILED {mid}>{dep}"]]]],
                       None])
        elif form == "plain":
            ir.append(["req", "plain", {"id": dep}, None])
            ir.append(["def", f"d{i}_{j}", ["mget", dep, f"c{j}_a"]])
            ir.append(["deffn", f"depbump{i}_{j}", [],
                       [["ret", ["mcall", dep, f"bump{j}", []]]]])
        elif form == "as":
            ir.append(["req", "as", {"id": dep}, f"dep{j}"])
            ir.append(["def", f"d{i}_{j}", ["mget", f"dep{j}", f"c{j}_a"]])
            ir.append(["deffn", f"depbump{i}_{j}", [],
                       [["ret", ["mcall", f"dep{j}", f"bump{j}", []]]]])
        elif form == "unq":
            ir.append(["req", "unq", {"id": dep}, None])
            ir.append(["def", f"d{i}_{j}", ["v", f"c{j}_a"]])
            ir.append(["deffn", f"depbump{i}_{j}", [],
                       [["ret", ["call", f"bump{j}", []]]]])
        else:
            ir.append(["req", "imp", {"id": dep},
                       [[f"c{j}_a", f"ic{j}"], [f"bump{j}", f"ib{j}"]]])
            ir.append(["def", f"d{i}_{j}", ["v", f"ic{j}"]])
            ir.append(["deffn", f"depbump{i}_{j}", [],
                       [["ret", ["call", f"ib{j}", []]]]])
    if opts.get("probe"):
        ir.append(["deffn", f"probe{i}", [], [["ret", ["v", "imp_only"]]]])
    if opts.get("leak"):
        ir.insert(rng.randrange(2, len(ir) + 1),
                  ["def", "leak", ["v", "imp_only"]])
    if opts.get("fail") is not None:
        ir.insert(min(len(ir), 1 + opts["fail"]),
                  ["err", rng.choice(["modfail", 3, ["l", [1]]])])
    ir.append(["def", f"tail{i}", rng.randrange(100)])
    return ir


def gen_case(rng, tier, k):
    two = rng.random() < 0.2
    insts = [{"name": "A", "secure": rng.random() < 0.7,
              "legacy": rng.random() < 0.15}]
    if two:
        insts.append({"name": "B", "secure": True, "legacy": False})
    loc = rng.choice(["home", "base", "base2", "base2", "both", "session"])
    store = {"paths": [], "path_scope": None}
    if loc in ("base", "base2", "both"):
        store["path_scope"] = "base"
        store["paths"] = ["/sim/mp1"] + (["/sim/mp2"] if loc == "base2"
                                         else [])
    elif loc == "session":
        store["path_scope"] = "session"
        store["paths"] = ["/sim/mp1"]

    n = rng.randrange(2, 6)
    ids = [f"m{i}" for i in range(1, n + 1)]
    cyc = rng.random() < 0.3 and n >= 3
    deps = {i: [] for i in range(1, n + 1)}
    if loc != "session":
        for i in range(1, n + 1):
            for j in range(i + 1, n + 1):
                if rng.random() < 0.35:
                    deps[i].append((j, f"m{j}"))
        if cyc:
            clen = rng.choice([2, 3])
            members = rng.sample(range(1, n + 1), clen)
            for a, b in zip(members, members[1:] + members[:1]):
                if (b, f"m{b}") not in deps[a]:
                    deps[a].append((b, f"m{b}"))
    mods = {}
    for i in range(1, n + 1):
        opts = {"probe": rng.random() < 0.4,
                "leak": rng.random() < 0.08,
                "fail": rng.randrange(0, 12) if rng.random() < 0.12
                else None}
        mods[f"m{i}"] = module_ir(rng, i, f"m{i}", deps[i], opts)
    # a module with a syntax error, required like the others
    if rng.random() < 0.3:
        mods["mbad"] = [["mark", "LOAD mbad"], ["def", "cbad", 1],
                        ["raw", rng.choice(["def x = ;", "1 +", "do 1; 2",
                                            "def f() do\n  1;\n"])]]
        ids = ids + ["mbad"]
    # a second module whose name differs from an existing one only in case:
    # a different module with its own state (the store is case sensitive)
    if rng.random() < 0.35:
        j = rng.randrange(1, n + 1)
        up = f"M{j}"
        mods[up] = [["mark", "LOAD " + up], ["def", f"c{j}_a", -7],
                    ["def", "upper_only", 1], ["def", "_st", 100],
                    ["deffn", f"bump{j}", [],
                     [["set", "_st", ["op", "+", ["v", "_st"], 1]],
                      ["ret", ["v", "_st"]]]],
                    ["deffn", f"peek{j}", [], [["ret", ["v", "_st"]]]]]
        ids = ids + [up]
    files = {}
    for i, mid in enumerate(ids):
        if loc == "home":
            dirs = [MOD_HOME]
        elif loc == "both":
            dirs = [MOD_HOME if i % 2 == 0 else "/sim/mp1"]
            if rng.random() < 0.3:
                dirs = [MOD_HOME, "/sim/mp1"]        # home shadows path
        elif loc == "base2":
            r = rng.random()
            dirs = (["/sim/mp1", "/sim/mp2"] if r < 0.4 else
                    ["/sim/mp1"] if r < 0.7 else ["/sim/mp2"])
        else:
            dirs = ["/sim/mp1"]
        for j, d in enumerate(dirs):
            ir = mods[mid]
            if j > 0:
                ir = [["mark", "LOAD-SHADOW " + mid],
                      ["def", "shadow_only", 1]]
            files[f"{d}/{mid}.ckl"] = {"ir": ir}
    case = {"config": {"instances": insts, "store": store,
                       "share_env": False, "prng": 0.25},
            "files": files, "ops": []}
    mstore = make_model_store(case)
    gm = {ic["name"]: lang.Machine(mstore, ic["name"]) for ic in insts}
    persistent = []
    fault_rate = rng.choice([0, 0, 0, 0.08, 0.2])
    allmods = ids + ["gone"]
    nfn = [0]

    def idx_of(mid):
        return int(mid[1:]) if mid[1:].isdigit() and mid[0] == "m" else 0

    def gen_require(scope, m):
        mid = rng.choice(allmods)
        i = idx_of(mid)
        form = rng.choice(["plain", "plain", "as", "unq", "imp"])
        r = rng.random()
        pre = []
        if r < 0.65:
            spec = {"id": mid}
        elif r < 0.8:
            spec = {"str": mid}
        elif r < 0.88:
            spec = {"str": rng.choice(["sub/", "a/b/", ""]) + mid + ".ckl"}
        else:
            var = "s_spec" + rng.choice("12")
            pre = [["def", var, ["s", mid]]]
            spec = {"id": var}
        extra = None
        if form == "as":
            extra = "al" + rng.choice("123")
            if rng.random() < 0.3:
                # the alias is the name of another real module
                extra = rng.choice(ids)
        elif form == "imp":
            cands = [f"c{i}_a", f"bump{i}", f"peek{i}", f"f{i}_x",
                     f"_p{i}", f"_h{i}", "_st", "nosuch", f"tail{i}",
                     "bump", f"usepriv{i}", f"probe{i}",
                     # defined by the base environment, not by the module
                     "length", "join", "stdout", "max", "NULL"]
            picks = rng.sample(cands, rng.randrange(1, 5))
            extra = [[c, c if rng.random() < 0.4 else
                      "i" + c.strip("_") + rng.choice("xy")]
                     for c in picks]
        return pre + [["req", form, spec, extra]], mid

    def objs_of(scope):
        out = []
        s = scope
        while s is not None:
            for nme, v in s.vars.items():
                if isinstance(v, lang.ModObj) and nme not in s.unspec:
                    out.append((nme, v))
            s = s.parent
        return sorted(out, key=lambda t: t[0])

    def fns_of(scope):
        out = []
        s = scope
        while s is not None:
            for nme, v in s.vars.items():
                if isinstance(v, lang.Fn) and nme not in s.unspec:
                    out.append((nme, v))
            s = s.parent
        return sorted(out, key=lambda t: t[0])

    def gen_use(scope):
        objs = objs_of(scope)
        fns = fns_of(scope)
        r = rng.random()
        if objs and r < 0.55:
            name, obj = rng.choice(objs)
            i = idx_of(obj.mod)
            members = sorted(k2 for k2, v in obj.members.items()
                             if v is not lang.UNSPEC)
            pick = rng.random()
            if pick < 0.2:
                mem = rng.choice([f"_p{i}", "_st"])
                return ["expr", ["mget", name, mem]]
            if pick < 0.3:
                return ["expr", ["mcall", name, f"_h{i}", []]]
            if not members:
                return ["expr", ["mget", name, "nothing"]]
            mem = rng.choice(members)
            if pick < 0.55 and f"inc{i}" in members:
                mem = rng.choice([f"inc{i}", f"cnt{i}", f"cnt{i}"])
            v = obj.members[mem]
            if isinstance(v, lang.Fn):
                args = [rng.randrange(9)] if v.params else []
                return ["expr", ["mcall", name, mem, args]]
            return ["expr", ["mget", name, mem]]
        if fns and r < 0.85:
            name, fn = rng.choice(fns)
            args = [rng.randrange(9)] if fn.params else []
            return ["expr", ["call", name, args]]
        if r < 0.93:
            # private / foreign names must not have leaked
            i = rng.randrange(1, n + 1)
            return ["expr", ["v", rng.choice([f"_p{i}", "_st", f"_h{i}",
                                              "shadow_only", f"c{i}_a"])]]
        vals = []
        s = scope
        while s is not None:
            vals += [nme for nme, v in s.vars.items()
                     if isinstance(v, int) and nme not in s.unspec]
            s = s.parent
        if vals:
            return ["expr", ["v", rng.choice(sorted(vals))]]
        return ["expr", 1]

    nops = rng.randrange(4, 29)
    # the importer defines a name modules must not be able to see
    case["ops"].append({"kind": "cmd", "inst": "A", "env": None,
                        "stmts": [["def", "imp_only", 77]], "faults": []})
    model_run(gm["A"], case["ops"][0]["stmts"], gm["A"].session, [], [])
    envs = {}
    for opi in range(nops):
        inst = rng.choice(insts)["name"]
        m = gm[inst]
        scope = m.session
        env = None
        if rng.random() < 0.2:
            # the importer is a caller-supplied environment
            env = rng.choice(["E1", "E2"])
            key = inst + ":" + env
            if key not in envs:
                envs[key] = lang.Scope(m.session, "scratch")
            scope = envs[key]
        r = rng.random()
        faults = []
        if r < 0.42:
            stmts, mid = gen_require(scope, m)
            if rng.random() < fault_rate:
                target = mid
                if deps.get(idx_of(mid)) and rng.random() < 0.5:
                    target = rng.choice(deps[idx_of(mid)])[1]
                fn = f"/{target}.ckl"
                faults = [rng.choice([
                    {"site": "fs.open", "path": fn,
                     "err": rng.choice(["ENOENT", "EACCES", "EIO"])},
                    {"site": "fs.read", "path": fn,
                     "err": rng.choice(["EIO", "UNICODE"])},
                    {"site": "fs.read", "path": fn,
                     "err": "SHORT:" + str(rng.randrange(0, 14))},
                    {"site": "fs.read", "path": fn,
                     "err": "SHORT:" + str(rng.randrange(0, 14))},
                    {"site": "out.write", "nth": 0, "err": "EIO"},
                ])]
        elif r < 0.56:
            # require from inside a function, then call it
            nfn[0] += 1
            rq, mid = gen_require(scope, m)
            fname = f"imp_f{nfn[0]}"
            i = idx_of(mid)
            form = rq[-1][1]
            if form == "plain" and "str" not in rq[-1][2]:
                use = ["mget", mid, f"c{i}_a"]
            elif form == "as":
                use = ["mget", rq[-1][3], f"c{i}_a"]
            elif form == "unq":
                use = ["v", f"c{i}_a"]
            elif form != "imp":
                use = 5
            else:
                # make sure the import list names something real, under an
                # alias, and use it: the same require statement node runs
                # again every time the function is called
                rq[-1][3] = [[f"c{i}_a", f"ia{nfn[0]}"]] + [
                    pr for pr in rq[-1][3] if pr[0] != f"c{i}_a"][:2]
                use = ["v", f"ia{nfn[0]}"]
            stmts = [["deffn", fname, [], rq + [["ret", use]]],
                     ["expr", ["call", fname, []]]]
            if rng.random() < 0.85:
                stmts.append(["expr", ["call", fname, []]])
        elif r < 0.585 and rng.random() < 0.5:
            # the store changes between two commands: a loaded module's
            # file is rewritten (same content), removed, or a missing
            # module appears
            loaded = sorted(pth for pth in mstore.files
                            if any(pth.endswith("/" + x + ".ckl")
                                   for mm in gm.values() for x in mm.loaded))
            r2 = rng.random()
            if loaded and r2 < 0.4:
                pth = rng.choice(loaded)
                op2 = {"kind": "putfile", "path": pth,
                       "ir": mstore.files[pth]["ir"]}
            elif loaded and r2 < 0.7:
                pth = rng.choice(loaded)
                op2 = {"kind": "rmfile", "path": pth}
                mstore.files.pop(pth, None)
            else:
                d0 = MOD_HOME if loc in ("home", "both") else "/sim/mp1"
                ir2 = [["mark", "LOAD gone"], ["def", "cg", 5]]
                op2 = {"kind": "putfile", "path": f"{d0}/gone.ckl",
                       "ir": ir2}
                mstore.files[op2["path"]] = {"ir": ir2}
            case["ops"].append(op2)
            continue
        elif r < 0.60 and objs_of(scope):
            # what exactly does a module object expose?
            name, obj = rng.choice(objs_of(scope))
            case["ops"].append({"kind": "lsmod", "inst": inst, "env": env,
                                "name": name})
            continue
        elif r < 0.66:
            # one require statement node evaluated several times with a
            # different module each time: the module spec is an identifier
            # that names a string variable (loop variable or parameter)
            picks = rng.sample(allmods, min(len(allmods),
                                            rng.randrange(2, 4)))
            form = rng.choice(["plain", "unq", "as", "unq"])
            extra = "al" + rng.choice("123") if form == "as" else None
            if rng.random() < 0.5:
                stmts = [["for", "k_m", ["l", [["s", x] for x in picks]],
                          [["req", form, {"id": "k_m"}, extra]]]]
            else:
                nfn[0] += 1
                fname = f"imp_f{nfn[0]}"
                stmts = [["deffn", fname, ["p"],
                          [["req", form, {"id": "p"}, extra],
                           ["ret", ["v", "p"]]]]]
                # inside a function the names are bound in the call's own
                # scope; what counts is which modules were loaded (the
                # LOAD marks) and that later requires find them
                stmts += [["expr", ["call", fname, [["s", x]]]]
                          for x in picks]
        elif r < 0.90:
            stmts = [gen_use(scope)]
            if rng.random() < 0.3:
                stmts.append(gen_use(scope))
        elif r < 0.95:
            # importer-probe: module code must not see importer variables
            cands = [(nme, v) for nme, v in objs_of(scope)
                     if any(k2.startswith("probe") for k2 in v.members)]
            if cands:
                name, obj = rng.choice(cands)
                mem = [k2 for k2 in obj.members if k2.startswith("probe")][0]
                stmts = [["expr", ["mcall", name, mem, []]]]
            else:
                stmts = [["expr", ["v", "imp_only"]]]
        else:
            stmts = [["def", "i_" + rng.choice("abc"), rng.randrange(9)]]
        op = {"kind": "cmd", "inst": inst, "env": env, "stmts": stmts,
              "faults": faults}
        case["ops"].append(op)
        try:
            model_run(m, stmts, scope, faults, persistent)
        except Unspec:
            break
    return case


def run_case(case, root):
    res = run_history(case, root, ID, ls_after_each=True)
    res["nontrivial"] = bool(res["probes"].get("same_module_two_forms"))
    return res


def _mut(name, file, old, new, count=1):
    return {"prop": ID, "name": name, "file": file, "old": old, "new": new,
            "count": count}


MUTANTS = [
    _mut("cache-keyed-by-alias", "ckl/nodes.py",
         """                modules[moduleidentifier] = moduleEnv
        finally:""",
         """                modules[modulename] = moduleEnv
        finally:"""),
    _mut("cache-never-written", "ckl/nodes.py",
         """                modules[moduleidentifier] = moduleEnv
        finally:""",
         """                pass
        finally:"""),
    _mut("underscore-filter-dropped-unqualified", "ckl/nodes.py",
         """        if self.unqualified:
            for name in moduleEnv.getLocalSymbols():
                if name.startswith("_"):
                    continue  # skip private module symbols
                environment.put(name, moduleEnv.get(name))""",
         """        if self.unqualified:
            for name in moduleEnv.getLocalSymbols():
                environment.put(name, moduleEnv.get(name))"""),
    _mut("underscore-filter-dropped-import", "ckl/nodes.py",
         """            for name in moduleEnv.getLocalSymbols():
                if name.startswith("_"):
                    continue  # skip private module symbols
                if name not in self.symbols:""",
         """            for name in moduleEnv.getLocalSymbols():
                if name not in self.symbols:"""),
    _mut("underscore-filter-dropped-object", "ckl/nodes.py",
         """            for name in moduleEnv.getLocalSymbols():
                if name.startswith("_"):
                    continue  # skip private module symbols
                val = moduleEnv.get(name)""",
         """            for name in moduleEnv.getLocalSymbols():
                val = moduleEnv.get(name)"""),
    _mut("import-as-binds-original-name", "ckl/nodes.py",
         "                environment.put(self.symbols[name], "
         "moduleEnv.get(name))",
         "                environment.put(name, moduleEnv.get(name))"),
    _mut("plain-require-also-unqualified", "ckl/nodes.py",
         """                obj.addItem(name, val)
            environment.put(modulename, obj)""",
         """                obj.addItem(name, val)
                if val.isFunc():
                    environment.put(name, val)
            environment.put(modulename, obj)"""),
    _mut("module-env-child-of-importer", "ckl/nodes.py",
         "                moduleEnv = environment.getBase().newEnv()",
         "                moduleEnv = environment.newEnv()"),
    _mut("module-evaluated-in-importer-env", "ckl/nodes.py",
         """                node.evaluate(moduleEnv)
                modules[moduleidentifier] = moduleEnv""",
         """                node.evaluate(environment)
                modules[moduleidentifier] = moduleEnv"""),
    _mut("cycle-check-removed", "ckl/functions.py",
         """        if moduleidentifier in base.modulestack:
            raise CklRuntimeError(""",
         """        if False and moduleidentifier in base.modulestack:
            raise CklRuntimeError("""),
    _mut("module-path-last-hit-wins", "ckl/nodes.py",
         """                                modulesrc = self.readModuleFile(filepath)
                                break""",
         """                                modulesrc = self.readModuleFile(filepath)"""),
    _mut("module-object-snapshot-copied-state", "ckl/nodes.py",
         """        moduleEnv = None
            if moduleidentifier in modules:
                moduleEnv = modules[moduleidentifier]""",
         """        moduleEnv = None
            if moduleidentifier in modules and not self.symbols:
                moduleEnv = modules[moduleidentifier]"""),
]
