"""C10 -- interpreter sessions keep definitions and survive failed calls.

Histories of session commands (with planned failures, transient and
persistent module-store faults, failing stream writes) issued to one or two
interleaved Interpreter instances, checked command by command against the
reference model.  See DESIGN.md section 4.3.
"""
import copy

from .. import lang
from ..lang import Unspec
from ..history import run_history
from ..session import MOD_HOME, make_model_store, model_run

ID = "C10"
TIERS = {
    "quick": {"runs": 6000, "wall_s": 150, "chunk": 50, "det": 40,
              "det_fresh": 12, "min_s": 40},
    "thorough": {"runs": 400000, "wall_s": 2400, "chunk": 200, "det": 200,
                 "det_fresh": 40, "min_s": 120},
}
RULE = ("each evaluation is one seeded history of 3-30 session commands "
        "(define/assign/append/in-place string change/read/function "
        "(re)definition and call chains/failing expression/multi-statement "
        "command failing in the middle/syntax error/aborted loop/fail storm/"
        "require in every import form of good, missing, broken, failing, "
        "dependency-missing, guarded-dependency and circular user modules/"
        "module files appearing and disappearing/caller-supplied (also "
        "nested, also foreign) environment/ls probe/heal/clock jump/repeat/"
        "verbatim re-issue) against 1-2 interleaved real Interpreter "
        "instances - through direct interpret calls, through the real REPL "
        "loop or through one real ckl.run.main() call per command - on a simulated module store, with planned failures and "
        "injected store/stream faults; distinct = distinct (command-kind "
        "sequence, instance schedule, fault sequence) fingerprints; "
        "non-trivial = at least one command failed and at least one later "
        "command was checked after it")
REAL = ["ckl.lexer", "ckl.parser", "ckl.nodes", "ckl.functions",
        "ckl.values", "ckl.interpreter.Interpreter", "bundled .ckl modules",
        "ckl.repl.main (REPL-hosted sessions)", "ckl.run.main (run-hosted sessions)"]
STUBBED = ["file system (real-backed virtual FS under /sim)",
           "pkgutil resource reads (proxied, fault site)",
           "stdout/stdin objects", "clock", "PRNG state", "HOME",
           "run host: the Interpreter constructor seen by ckl.run returns "
           "the same interpreter on every call (a real run process ends "
           "after one script); everything else in ckl.run.main is real"]
ASSUMPTIONS = [
    "the reference model (simckl/lang.py) states the intended session "
    "semantics; error message texts are only ever compared between two "
    "observations of the same failing command",
    "loop-variable residue after an aborted loop, checkerlang_* names and "
    "re-exported dependency module objects are unspecified and ignored",
    "faults are injected at the module-attribute seams; code that bypasses "
    "them sees the same files but no faults (reported by the audit hook)",
]
REQUIRED_PROBES = {
    "quick": ["failed_then_later_checked", "require_after_failed_require",
              "faulted_require_then_retry", "cached_module_path",
              "two_instances", "scratch_env", "repeat_checked",
              "env_moved_between_instances", "repl_commands", "run_commands",
              "store_changed_mid_session", "deep_caller_env"],
    "thorough": ["failed_then_later_checked", "require_after_failed_require",
                 "faulted_require_then_retry", "cached_module_path",
                 "two_instances", "scratch_env", "repeat_checked",
                 "env_moved_between_instances", "repl_commands", "run_commands",
                 "store_changed_mid_session", "deep_caller_env"],
}

SYNTAX_ERRORS = ["def x_bad = ;", "1 +", "do 1; 2", "def = 5", "[1, 2",
                 "if 1 == 1 then", ")", "def f_bad( do 1; end", "1 2",
                 "for k_z in do 1; end", "<<<1 =>>>>", "x ===", "def 5 = 1", "end"]
# shapes that do not make the REPL wait for a continuation line
SYNTAX_ERRORS_COMPLETE = ["def x_bad = ;", "def = 5", ")", "1 2",
                          "<<<1 =>>>>", "x ===", "def 5 = 1", "end"]
ERR_VALUES = ["boom", 7, 0, ["f", 1.5], True, None, ["l", [1, 2]],
              ["l", []], "ERROR", ["set", [3]], ["map", [["k", 1]]]]


# ------------------------------------------------------------------------
# generation

class Gen:
    def __init__(self, rng, tier):
        self.rng = rng
        self.tier = tier
        self.counter = 0

    def fresh(self, prefix):
        self.counter += 1
        return f"{prefix}{self.counter}"

    # module bodies -------------------------------------------------------
    def module_ir(self, mid, deps=(), fail_at=None, fail_value="boom",
                  extra_defs=0, broken=False):
        rng = self.rng
        ir = [["mark", "LOAD " + mid]]
        ir.append(["def", "_cnt", 0])
        ir.append(["deffn", "bump", [],
                   [["set", "_cnt", ["op", "+", ["v", "_cnt"], 1]],
                    ["ret", ["v", "_cnt"]]]])
        ir.append(["deffn", "peek", [], [["ret", ["v", "_cnt"]]]])
        ir.append(["def", "val", rng.randrange(100, 999)])
        for d in deps:
            form = rng.choice(["plain", "plain", "as", "guarded"])
            if form == "plain":
                ir.append(["req", "plain", {"id": d}, None])
                ir.append(["def", "dval_" + d, ["mget", d, "val"]])
            elif form == "guarded":
                # the module survives a failing (e.g. circular) dependency
                ir.append(["blk", [["req", "plain", {"id": d}, None],
                                   ["mark", "DEP-OK " + mid]],
                           [[None, [["mark", "DEP-FAILED " + mid]]]], None])
            else:
                ir.append(["req", "as", {"id": d}, "dep_" + d])
                ir.append(["def", "dval_" + d, ["mget", "dep_" + d, "val"]])
        for _ in range(extra_defs):
            ir.append(["def", self.fresh("c_"), rng.randrange(10)])
        ir.append(["def", "tail", rng.randrange(10, 99)])
        if fail_at is not None:
            pos = max(1, min(len(ir), fail_at))
            ir.insert(pos, ["err", fail_value])
        if broken:
            pos = rng.randrange(1, len(ir) + 1)
            ir.insert(pos, ["raw", rng.choice(SYNTAX_ERRORS)])
        return ir


def gen_case(rng, tier, k):
    g = Gen(rng, tier)
    two = rng.random() < 0.4
    insts = [{"name": "A", "secure": rng.random() < 0.8,
              "legacy": rng.random() < 0.2}]
    if two:
        insts.append({"name": "B", "secure": rng.random() < 0.8,
                      "legacy": rng.random() < 0.2})
    loc = rng.choice(["home", "home", "base", "base2", "session", "both"])
    store = {"paths": [], "path_scope": None}
    if loc in ("base", "base2", "both"):
        store["path_scope"] = "base"
        store["paths"] = ["/sim/mp1"] + (["/sim/mp2"] if loc == "base2"
                                         else [])
    elif loc == "session":
        store["path_scope"] = "session"
        store["paths"] = ["/sim/mp1"]

    def place(mid, idx):
        if loc in ("home",):
            return [MOD_HOME]
        if loc == "both":
            return [MOD_HOME if idx % 2 == 0 else "/sim/mp1"]
        if loc == "base2":
            r = rng.random()
            if r < 0.3:
                return ["/sim/mp1", "/sim/mp2"]     # shadowed copy
            return ["/sim/mp1"] if r < 0.65 else ["/sim/mp2"]
        return ["/sim/mp1"]

    # the module population
    mods = {}      # id -> ir
    kinds = {}
    late_files = {}
    pool = ["good", "good", "dep", "failing", "faildep", "broken", "missdep",
            "cyc2", "cyc3", "good", "truncated", "runscript", "badutf8"]
    rng.shuffle(pool)
    nk = rng.randrange(3, 7)
    n = 0
    for kind in pool[:nk]:
        n += 1
        if kind == "good":
            mid = f"mg{n}"
            mods[mid] = g.module_ir(mid, extra_defs=rng.randrange(3))
            kinds[mid] = "good"
        elif kind == "dep":
            a, b = f"ma{n}", f"mb{n}"
            mods[b] = g.module_ir(b)
            mods[a] = g.module_ir(a, deps=[b])
            kinds[a], kinds[b] = "dep", "good"
        elif kind == "failing":
            mid = f"mf{n}"
            mods[mid] = g.module_ir(
                mid, fail_at=rng.randrange(0, 8),
                fail_value=rng.choice(ERR_VALUES))
            kinds[mid] = "failing"
        elif kind == "faildep":
            a, b = f"mx{n}", f"my{n}"
            mods[b] = g.module_ir(b)
            mods[a] = g.module_ir(a, deps=[b], fail_at=rng.randrange(6, 10),
                                  fail_value=rng.choice(ERR_VALUES))
            kinds[a], kinds[b] = "faildep", "good"
        elif kind == "broken":
            mid = f"mk{n}"
            mods[mid] = g.module_ir(mid, broken=True)
            kinds[mid] = "broken"
        elif kind == "truncated":
            # a file cut in the middle of a statement: "unexpected end of
            # input" while the module is being loaded
            mid = f"mt{n}"
            mods[mid] = [["raw", rng.choice([
                "print('LOAD " + mid + "|');\ndef val = 1;\ndef f() do\n  1;\n",
                "print('LOAD " + mid + "|');\ndef val = [1, 2,\n",
                "def val = (1 +\n"])]]
            kinds[mid] = "truncated"
        elif kind == "badutf8":
            mid = f"mu{n}"
            mods[mid] = [["latin1", "print('LOAD " + mid + "|');\n"
                          "def val = 'gr\u00fc\u00dfe';\n"]]
            kinds[mid] = "badutf8"
        elif kind == "runscript":
            # the module's top level runs a script file, and that script
            # requires the module that is still being loaded: a cycle that
            # passes through the script runner
            mid = f"mr{n}"
            ir = g.module_ir(mid)
            ir.insert(2, ["runf", f"/sim/scripts/back_{mid}.ckl"])
            mods[mid] = ir
            kinds[mid] = "runscript"
            late_files[f"/sim/scripts/back_{mid}.ckl"] = {"ir": [
                ["mark", "SCRIPT back " + mid],
                ["req", "plain", {"id": mid}, None]]}
        elif kind == "missdep":
            mid = f"mm{n}"
            mods[mid] = g.module_ir(mid, deps=[f"nosuch{n}"])
            kinds[mid] = "missdep"
        elif kind == "cyc2":
            a, b = f"ca{n}", f"cb{n}"
            mods[a] = g.module_ir(a, deps=[b])
            mods[b] = g.module_ir(b, deps=[a])
            kinds[a] = kinds[b] = "cyc"
        elif kind == "cyc3":
            a, b, c = f"ca{n}", f"cb{n}", f"cc{n}"
            mods[a] = g.module_ir(a, deps=[b])
            mods[b] = g.module_ir(b, deps=[c])
            mods[c] = g.module_ir(c, deps=[a])
            kinds[a] = kinds[b] = kinds[c] = "cyc"
    for mu in [x for x in mods if kinds.get(x) == "badutf8"]:
        # a module that guards its require of the undecodable one
        mods["mw" + mu] = g.module_ir("mw" + mu) + [
            ["blk", [["req", "plain", {"id": mu}, None],
                     ["mark", "DEP-OK " + mu]],
             [[None, [["mark", "DEP-FAILED " + mu]]]], None]]
        kinds["mw" + mu] = "good"
    mods["zs"] = g.module_ir("zs")
    kinds["zs"] = "sentinel"
    missing = [f"gone{i}" for i in range(2)]

    files = {}
    for idx, (mid, ir) in enumerate(sorted(mods.items())):
        dirs = place(mid, idx)
        for j, d in enumerate(dirs):
            ir2 = ir
            if j > 0:
                # the shadowed copy is different: must never be the one used
                ir2 = [["mark", "LOAD-SHADOW " + mid],
                       ["def", "val", -1], ["def", "shadow", 1]]
            if len(ir2) == 1 and ir2[0][0] == "latin1":
                files[f"{d}/{mid}.ckl"] = {"latin1": ir2[0][1]}
            elif len(ir2) == 1 and ir2[0][0] == "raw":
                # written verbatim: the file really ends in mid-statement
                files[f"{d}/{mid}.ckl"] = {"raw": ir2[0][1]}
            else:
                files[f"{d}/{mid}.ckl"] = {"ir": ir2}

    share_env = two and rng.random() < 0.5
    host = "api"
    if not two and loc in ("home", "session") and rng.random() < 0.45:
        host = "repl"          # the real REPL loop is the host
        if rng.random() < 0.3:
            host = "run"       # ckl.run.main executes every command
    files.update(late_files)
    case = {"config": {"instances": insts, "store": store,
                       "share_env": share_env, "host": host,
                       "deep_env": rng.random() < 0.5,
                       "prng": round(rng.random(), 6)},
            "files": files, "ops": []}

    # generation-time model, to keep the generator's idea of the state
    mstore = make_model_store(case)
    gm = {i["name"]: lang.Machine(mstore, i["name"]) for i in insts}
    for i in insts:
        gm[i["name"]].nonsecure = not i["secure"]
    # script files for the script runner of non-secure interpreters
    for j in range(2):
        files[f"/sim/scripts/s{j}.ckl"] = {"ir": [
            ["def", f"i_run{j}", rng.randrange(100)],
            ["mark", f"SCRIPT s{j}"],
            ["expr", ["v", f"i_run{j}"]]]}
    mstore.files.update({k: v for k, v in files.items()
                         if k.startswith("/sim/scripts/")})
    persistent = []
    fault_rate = rng.choice([0, 0, 0.05, 0.1, 0.25])
    nops = rng.randrange(3, 31)
    allmods = sorted(mods) + missing
    envs = {}
    env_owner = {}

    def scope_of(inst, env):
        m = gm[inst]
        if env is None:
            return m.session
        key = env if share_env else inst + ":" + env
        if key not in envs:
            envs[key] = lang.Scope(m.session, "scratch")
            env_owner[key] = inst
        if env_owner[key] != inst:
            return None          # foreign environment: the call is refused
        return envs[key]

    def known(scope, prefix, want=None):
        out = []
        s = scope
        while s is not None:
            for nme, v in s.vars.items():
                if nme.startswith(prefix) and nme not in s.unspec:
                    if want is None or isinstance(v, want):
                        out.append(nme)
            s = s.parent
        return sorted(set(out))

    def modobjs(scope):
        out = []
        s = scope
        while s is not None:
            for nme, v in s.vars.items():
                if isinstance(v, lang.ModObj) and nme not in s.unspec:
                    out.append(nme)
            s = s.parent
        return sorted(set(out))

    def gen_expr_int(scope):
        ints = known(scope, "i_")
        r = rng.random()
        if ints and r < 0.5:
            return ["op", rng.choice("+-*"), ["v", rng.choice(ints)],
                    rng.randrange(1, 9)]
        if ints and r < 0.7:
            return ["v", rng.choice(ints)]
        return rng.randrange(0, 50)

    def gen_state_stmt(scope, glob=True):
        ints = known(scope, "i_")
        lists = known(scope, "l_")
        strs = known(scope, "s_")
        r = rng.random()
        if r < 0.25 or not (ints or lists or strs):
            t = rng.choice(["i_", "i_", "l_", "s_"])
            name = t + rng.choice("abcdefgh")
            if t == "i_":
                return ["def", name, gen_expr_int(scope)]
            if t == "l_":
                return ["def", name, ["l", [rng.randrange(9)
                                            for _ in range(rng.randrange(3))]
                                      ]]
            return ["def", name, ["s", rng.choice(["x", "yy", "z z"])]]
        if r < 0.45 and ints:
            return ["set", rng.choice(ints), gen_expr_int(scope)]
        if r < 0.6 and ints:
            return ["cset", rng.choice(ints), rng.choice("+-*"),
                    rng.randrange(1, 5)]
        if r < 0.75 and lists:
            return ["app", rng.choice(lists), gen_expr_int(scope)]
        if r < 0.8 and lists:
            nm = rng.choice(lists)
            return ["set", nm, ["op", "+", ["v", nm],
                                ["l", [rng.randrange(9)]]]]
        if r < 0.83 and strs and glob:
            # in-place modification of a string value
            return ["idxset", rng.choice(strs), rng.randrange(0, 3),
                    rng.choice("jkq")]
        if r < 0.85 and strs:
            nm = rng.choice(strs)
            return ["set", nm, ["op", "+", ["v", nm], ["s", "q"]]]
        if r < 0.9 and lists:
            # aliasing: two names for one list
            return ["def", "l_" + rng.choice("xyz"), ["v", rng.choice(lists)]]
        return ["mark", g.fresh("t")]

    def gen_fail_stmt():
        r = rng.random()
        if r < 0.45:
            return ["err", rng.choice(ERR_VALUES)]
        if r < 0.52:
            # an error value that has no string conversion (a stream
            # object): the hosts must survive reporting it
            return ["erre", ["base", rng.choice(["stdout", "stdin"])]]
        return [rng.choice(["undef", "div0", "idx", "badcall"])]

    def gen_read(scope):
        names = known(scope, "i_") + known(scope, "l_") + known(scope, "s_")
        if names and rng.random() < 0.9:
            return ["expr", ["v", rng.choice(names)]]
        return ["expr", ["v", "i_" + rng.choice("abcdefgh")]]

    def gen_fn(scope):
        name = "f_" + rng.choice("abcd")
        params = ["p"] if rng.random() < 0.7 else []
        body = []
        lower = [x for x in known(scope, "f_", lang.Fn) if x < name]
        for _ in range(rng.randrange(1, 5)):
            r = rng.random()
            if r < 0.2 and lower:
                # calls a function with a smaller name (no recursion); that
                # one may be re-defined later, and the call must follow
                callee = rng.choice(lower)
                cf = scope.lookup(callee).vars[callee]
                body.append(["expr", ["call", callee,
                                      [rng.randrange(3)] if cf.params
                                      else []]])
            elif r < 0.25:
                body.append(["mark", g.fresh("fm")])
            elif r < 0.4 and params:
                body.append(["if", ["op", "==", ["v", "p"],
                                    rng.randrange(3)],
                             [gen_fail_stmt()], None])
            elif r < 0.5:
                body.append(["def", "loc", gen_expr_int(scope)])
            else:
                st = gen_state_stmt(scope, glob=False)
                if st[0] == "def":
                    # definitions inside a function are local; use globals
                    st = ["mark", g.fresh("fm")]
                body.append(st)
        ints = known(scope, "i_")
        ret = ["v", rng.choice(ints)] if ints and rng.random() < 0.5 else (
            ["v", "p"] if params else rng.randrange(9))
        body.append(["ret", ret])
        return ["deffn", name, params, body]

    def gen_require(scope):
        mid = rng.choice(allmods)
        trunc = [x for x in allmods if kinds.get(x) == "truncated"]
        if trunc and rng.random() < (0.3 if host == "repl" else 0.1):
            mid = rng.choice(trunc)
        if two and rng.random() < 0.4:
            # prefer what some instance has already loaded: the other one
            # must load its own copy
            seen = sorted(set(x for mm in gm.values() for x in mm.loaded))
            if seen:
                mid = rng.choice(seen)
        form = rng.choice(["plain", "plain", "as", "unq", "imp"])
        r3 = rng.random()
        spec = {"id": mid} if r3 < 0.7 else {"str": mid} if r3 < 0.85 \
            else {"str": rng.choice(["lib/", "a/b/", ""]) + mid +
                  rng.choice(["", ".ckl"])}
        extra = None
        if form == "as":
            extra = "al_" + rng.choice("pqr")
        elif form == "imp":
            cands = ["bump", "peek", "val", "tail", "_cnt", "nosuch"]
            picks = rng.sample(cands, rng.randrange(1, 4))
            extra = [[c, c if rng.random() < 0.5 else
                      "im_" + c.strip("_") + rng.choice("12")]
                     for c in picks]
        return ["req", form, spec, extra], mid

    def gen_module_use(scope):
        objs = modobjs(scope)
        fns = [nme for nme in known(scope, "", lang.Fn)
               if nme in ("bump", "peek") or nme.startswith("im_")]
        r = rng.random()
        if objs and r < 0.6:
            o = rng.choice(objs)
            member = rng.choice(["bump", "peek", "peek", "val", "tail",
                                 "_cnt"])
            if member in ("bump", "peek"):
                return ["expr", ["mcall", o, member, []]]
            return ["expr", ["mget", o, member]]
        if fns:
            return ["expr", ["call", rng.choice(fns), []]]
        vals = [nme for nme in ("val", "tail") if scope.lookup(nme)]
        if vals:
            return ["expr", ["v", rng.choice(vals)]]
        return None

    last_cmd = None
    chain = []          # queued (inst, stmts) of a re-definition chain
    for opi in range(nops):
        inst = rng.choice(insts)["name"]
        m = gm[inst]
        env = None
        if not chain and rng.random() < 0.04:
            # g is defined, f calls g, f is called, g is re-defined (maybe
            # by a command that fails afterwards), f is called again: the
            # later definition must be the one f uses
            ga, gb = rng.randrange(1, 50), rng.randrange(50, 99)
            redef = [["deffn", "f_a", ["p"],
                      [["mark", g.fresh("gm")],
                       ["ret", ["op", "+", ["v", "p"], gb]]]]]
            if rng.random() < 0.4:
                redef.append(gen_fail_stmt())
            chain = [
                [["deffn", "f_a", ["p"],
                  [["ret", ["op", "+", ["v", "p"], ga]]]]],
                [["deffn", "f_c", ["p"],
                  [["ret", ["call", "f_a", [["v", "p"]]]]]]],
                [["expr", ["call", "f_c", [rng.randrange(5)]]]],
                redef,
                [["expr", ["call", "f_c", [rng.randrange(5)]]]],
            ]
            chain = [(inst, c) for c in chain]
        if chain:
            inst, stmts = chain.pop(0)
            m = gm[inst]
            op = {"kind": "cmd", "inst": inst, "env": None, "stmts": stmts,
                  "faults": []}
            case["ops"].append(op)
            last_cmd = op
            try:
                model_run(m, stmts, m.session, [], persistent)
            except Unspec:
                break
            continue
        if host == "api" and rng.random() < (0.4 if share_env else 0.15):
            env = rng.choice(["E1", "E2"])
        scope = scope_of(inst, env)
        if scope is None:
            # this interpreter is handed an environment that belongs to
            # the other one
            owner_scope = envs[env]
            # (only the session's own data/function names: natives such
            # as file_info also exist in a legacy base environment, where
            # reading them is no leak)
            names_there = sorted(x for x in owner_scope.names()
                                 if x.startswith(("i_", "l_", "s_", "f_")))
            what = ["expr", ["v", rng.choice(names_there)]] \
                if names_there and rng.random() < 0.7 else \
                rng.choice([["mark", g.fresh("fe")], ["def", "i_a", 1],
                            ["expr", 1]])
            case["ops"].append({"kind": "cmd", "inst": inst, "env": env,
                                "stmts": [what], "faults": []})
            continue
        r = rng.random()
        op = None
        if r < 0.05:
            op = {"kind": "ls", "inst": inst, "env": env}
        elif r < 0.08 and persistent:
            op = {"kind": "heal"}
            persistent.clear()
        elif r < 0.10:
            op = {"kind": "clock", "jump": rng.choice(
                [-86400 * 400, -3600, 1, 3600, 86400 * 365 * 3])}
        elif r < 0.18 and last_cmd is not None:
            if rng.random() < 0.45:
                # re-issue some earlier command text verbatim (possibly on
                # the other instance): same text, same file name
                earlier = [o for o in case["ops"] if o["kind"] == "cmd"]
                op = copy.deepcopy(rng.choice(earlier))
                op["faults"] = []
                op.pop("repeat", None)
                if host == "api":
                    op["inst"] = rng.choice(insts)["name"]
            else:
                op = copy.deepcopy(last_cmd)
                op["repeat"] = True
                if rng.random() < 0.5:
                    op["faults"] = []
            inst, env = op["inst"], op["env"]
            m = gm[inst]
            scope = scope_of(inst, env)
            if scope is None:
                case["ops"].append(op)
                continue
        else:
            stmts = []
            kind = rng.choice(
                ["state", "state", "read", "fn", "call", "fail", "multifail",
                 "syntax", "loopabort", "require", "require", "require",
                 "moduse", "moduse", "sentinel", "failstorm", "appear",
                 "runfile", "bindnative", "bigarg", "shadowloop"])
            if kind == "appear":
                # a module that was missing appears in the store (or a
                # present one disappears) between two commands
                d = (store["paths"] or [MOD_HOME])[0] \
                    if loc not in ("home", "both") else MOD_HOME
                r2 = rng.random()
                loaded_files = sorted(
                    pth for pth in mstore.files
                    if pth.endswith(".ckl") and "/scripts/" not in pth and
                    any(pth.endswith("/" + x + ".ckl")
                        for mm in gm.values() for x in mm.loaded))
                if r2 < 0.35 and loaded_files:
                    # an already loaded module's file is rewritten with
                    # the same content (new modification time): nothing
                    # may be reloaded
                    pth = rng.choice(loaded_files)
                    op = {"kind": "putfile", "path": pth,
                          "ir": mstore.files[pth]["ir"]}
                elif r2 < 0.75:
                    mid = rng.choice(missing)
                    ir = g.module_ir(mid)
                    op = {"kind": "putfile", "path": f"{d}/{mid}.ckl",
                          "ir": ir}
                    mstore.files[op["path"]] = {"ir": ir}
                    mods[mid] = ir
                    kinds[mid] = "good"
                else:
                    cands = sorted(pth for pth in mstore.files
                                   if "/zs." not in pth
                                   and "/scripts/" not in pth)
                    pth = rng.choice(cands)
                    op = {"kind": "rmfile", "path": pth}
                    mstore.files.pop(pth, None)
                case["ops"].append(op)
                continue
            if kind == "state":
                for _ in range(rng.randrange(1, 4)):
                    stmts.append(gen_state_stmt(scope))
                if rng.random() < 0.5:
                    stmts.append(gen_read(scope))
            elif kind == "read":
                stmts.append(gen_read(scope))
            elif kind == "fn":
                stmts.append(gen_fn(scope))
            elif kind == "call":
                fns = [x for x in known(scope, "f_", lang.Fn)]
                if fns:
                    fname = rng.choice(fns)
                    fn = scope.lookup(fname).vars[fname]
                    args = [rng.randrange(3)] if fn.params else []
                    stmts.append(["expr", ["call", fname, args]])
                else:
                    stmts.append(["expr", ["call", "f_a", [1]]])
            elif kind == "fail":
                stmts.append(gen_fail_stmt())
            elif kind == "multifail":
                nb = rng.randrange(0, 3)
                na = rng.randrange(0, 3)
                for _ in range(nb):
                    stmts.append(gen_fn(scope) if rng.random() < 0.2
                                 else gen_state_stmt(scope))
                stmts.append(gen_fail_stmt())
                for _ in range(na):
                    # definitions (also of functions, also re-definitions)
                    # after the failing statement must never take effect
                    stmts.append(gen_fn(scope) if rng.random() < 0.35
                                 else gen_state_stmt(scope))
            elif kind == "syntax":
                for _ in range(rng.randrange(0, 3)):
                    stmts.append(gen_state_stmt(scope))
                stmts.append(["raw", rng.choice(
                    SYNTAX_ERRORS_COMPLETE if host == "repl"
                    else SYNTAX_ERRORS)])
            elif kind == "loopabort":
                nloop = rng.randrange(2, 6)
                j = rng.randrange(0, nloop + 1)
                body = [gen_state_stmt(scope, glob=False),
                        ["if", ["op", "==", ["v", "k_i"], j],
                         [gen_fail_stmt()], None],
                        gen_state_stmt(scope, glob=False)]
                body = [b for b in body if b[0] != "def"] or [
                    ["mark", g.fresh("lm")]]
                stmts.append(["for", "k_i",
                              ["l", list(range(nloop))], body])
            elif kind == "require":
                st, mid = gen_require(scope)
                if rng.random() < (0.7 if kinds.get(mid) == "truncated"
                                   else 0.3):
                    stmts.append(gen_state_stmt(scope))
                stmts.append(st)
                if rng.random() < 0.3:
                    stmts.append(gen_state_stmt(scope))
            elif kind == "moduse":
                st = gen_module_use(scope)
                if st is None:
                    st, mid = gen_require(scope)
                stmts.append(st)
            elif kind == "sentinel":
                stmts.append(["req", "plain", {"id": "zs"}, None])
                stmts.append(["expr", ["mget", "zs", "val"]])
            elif kind == "bindnative":
                stmts.append(["bind", rng.choice(["file_exists", "list_dir",
                                                  "file_info"])])
            elif kind == "runfile":
                stmts.append(["runf", f"/sim/scripts/s{rng.randrange(2)}.ckl"])
                if rng.random() < 0.5:
                    stmts.append(gen_read(scope))
            elif kind == "bigarg":
                # a failure leaves a call whose argument is a large
                # collection (sizes around the 16/17-element mark at which
                # stack-trace lines abbreviate their arguments); handled
                # once, then not handled
                nbig = rng.choice([15, 16, 17, 18, 40])
                shape = rng.choice(["set", "l", "map", "set"])
                if shape == "map":
                    big = ["map", [[["s", f"k{j:02d}"], j]
                                   for j in range(nbig)]]
                else:
                    big = [shape, [j if rng.random() < 0.7 else
                                   ["s", f"e{j:02d}"] for j in range(nbig)]]
                stmts.append(["deffn", "f_big", ["p"],
                              [gen_fail_stmt(), ["ret", 0]]])
                stmts.append(["blk", [["expr", ["call", "f_big", [big]]]],
                              [[None, [["mark", g.fresh("bg")]]]], None])
                stmts.append(["expr", ["call", "f_big", [big]]])
            elif kind == "shadowloop":
                # loops inside a function use a loop-variable name that the
                # session also defines (nested loops even the same name
                # twice): the call must leave the session's variable alone
                ints = known(scope, "i_")
                if ints:
                    nm = rng.choice(ints)
                else:
                    nm = "i_" + rng.choice("abcdefgh")
                    stmts.append(["def", nm, rng.randrange(50, 60)])
                inner = [["mark", g.fresh("sl")]]
                if rng.random() < 0.7:
                    inner = [["for", nm, ["l", [7, 8][:rng.randrange(1, 3)]],
                              [["mark", g.fresh("sl")]]]]
                if rng.random() < 0.25:
                    inner.append(gen_fail_stmt())
                stmts.append(["deffn", "f_sh", [],
                              [["for", nm, ["l", [1, 2]], inner],
                               ["ret", 1]]])
                stmts.append(["expr", ["call", "f_sh", []]])
                stmts.append(["expr", ["v", nm]])
            elif kind == "failstorm":
                # many failures unwinding through nested function calls in
                # one command, each handled; afterwards calls still work
                stmts.append(["deffn", "f_s1", ["p"],
                              [["if", ["op", ">", ["v", "p"], 0],
                                [["expr", ["call", "f_s1",
                                           [["op", "-", ["v", "p"], 1]]]]],
                                None],
                               gen_fail_stmt(), ["ret", 0]]])
                stmts.append(["def", "i_storm", 0])
                stmts.append(["for", "k_s", ["l", list(range(
                    rng.choice([5, 30, 45])))],
                    [["blk", [["expr", ["call", "f_s1", [3]]]],
                      [[None, [["cset", "i_storm", "+", 1]]]], None]]])
                stmts.append(["expr", ["v", "i_storm"]])
            op = {"kind": "cmd", "inst": inst, "env": env, "stmts": stmts,
                  "faults": []}
            # faults that strike inside this very command
            if rng.random() < fault_rate:
                reqs = [s for s in lang.walk_stmts(stmts) if s[0] == "req"]
                nmarks = sum(1 for s in lang.walk_stmts(stmts)
                             if s[0] == "mark")
                choices = []
                if reqs:
                    spec = reqs[0][2]
                    mid = spec.get("id", spec.get("str"))
                    target = mid
                    if kinds.get(mid) in ("dep", "faildep", "cyc") \
                            and rng.random() < 0.5:
                        # strike the dependency, not the outer module
                        for s in mods[mid]:
                            if s[0] == "req":
                                target = s[2]["id"]
                    fn = f"/{target}.ckl"
                    choices += [
                        {"site": "fs.open", "path": fn, "err": rng.choice(
                            ["ENOENT", "EACCES", "EIO", "EMFILE", "EISDIR"])},
                        {"site": "fs.read", "path": fn, "err": rng.choice(
                            ["EIO", "UNICODE", "SHORT:0", "SHORT:2",
                             "SHORT:4", "SHORT:6"])},
                        {"site": "fs.stat", "path": fn, "err": "EACCES"},
                        {"site": "pkg.read", "path": f"modules/{target}.ckl",
                         "err": "EIO"},
                        {"site": "out.write", "nth": rng.randrange(0, 3),
                         "err": "EIO"},
                    ]
                if nmarks or not choices:
                    choices.append({"site": "out.write",
                                    "nth": rng.randrange(0, max(1, nmarks)),
                                    "err": rng.choice(["EIO", "ENOSPC",
                                                       "VALUE", "TYPE",
                                                       "ATTR", "RUNTIME"])})
                f = rng.choice(choices)
                if f["site"] != "out.write" and rng.random() < 0.3:
                    f["persist"] = True
                op["faults"] = [f]
            last_cmd = op
        case["ops"].append(op)
        # advance the generation-time model
        if op["kind"] == "cmd":
            for f in op["faults"]:
                if f.get("persist"):
                    persistent.append(f)
            try:
                model_run(m, op["stmts"], scope, op["faults"], persistent)
            except Unspec:
                break
    case["ops"].append({"kind": "ls", "inst": "A", "env": None})
    return case


def run_case(case, root):
    return run_history(case, root, ID)
