"""C09 -- secure mode denies file, process and script-loading access.

The property is a statement about effects on the world outside the
interpreter, so the simulated OS is the observer: every attempted effect is
a recorded event attributed to the interpreter instance that was running,
and a canary tree is compared before and after.  Cases:
  k < K_SWEEP : the finite sweeps, enumerated completely in every run
      (every native name x alias mode, every symbol of every bundled module
      x import form, every syntactic way of binding the secure-mode flag,
      the reachability crawl), in the legacy and the non-legacy base
      environment;
  k >= K_SWEEP: seeded sessions mixing all of those with failing calls,
      faulted requires and step faults on a secure instance INTERLEAVED with
      a non-secure instance in the same process that legitimately performs
      file and process operations.
See DESIGN.md section 4.2.
"""
import os
import re

from ..session import MOD_HOME, Sim, fingerprint
from ..sut import HarnessError

ID = "C09"
TIERS = {
    "quick": {"runs": 1500, "wall_s": 200, "chunk": 20, "det": 40,
              "det_fresh": 12, "min_s": 40},
    "thorough": {"runs": 250000, "wall_s": 3000, "chunk": 100, "det": 200,
                 "det_fresh": 40, "min_s": 120},
}
RULE = ("cases 0..K-1 enumerate completely: every native name the binder "
        "knows x {no alias, fresh alias, alias of an existing secure name, "
        "alias `run`, native's own name pre-defined, harmless native first "
        "bound under this native's name} x 15 path-like/command-like/"
        "callback call shapes; every symbol of every bundled module x "
        "{require, require as, unqualified, import [sym as alias]} x call "
        "shapes; every syntactic binding form applied to "
        "checkerlang_secure_mode (also via eval/parse, from inside a user "
        "module and at the top level of a caller-supplied environment) "
        "followed by the OS-touching natives and a behavioural read of the "
        "flag from a freshly loaded module; closures created in a caller-"
        "supplied environment and invoked later (detached-scope attacks); a "
        "crawl of every function value reachable from the environments; all "
        "in the legacy and non-legacy configuration. Cases >= K are seeded "
        "sessions of 5-40 such commands on a secure instance interleaved "
        "(either creation order) with a non-secure instance doing real "
        "file/process work, sharing caller-supplied environments and "
        "identical script texts with it, with user modules named like "
        "bundled ones, failing calls, faulted requires, step faults and a "
        "second secure interpreter created late in the life of the process. "
        "One evaluation = one command executed on a secure instance under "
        "the OS monitor; distinct = distinct (command text, configuration) "
        "plus distinct session fingerprints; non-trivial = the command "
        "attempts an OS-touching operation by name, alias, module member or "
        "reachable value")
REAL = ["ckl.functions (binder, all natives)", "ckl.nodes (NodeAssign guard, "
        "NodeRequire)", "ckl.interpreter.Interpreter (secure and non-secure "
        "instances in one process)", "all bundled .ckl modules",
        "ckl.repl.main (repl -s sessions)", "ckl.run.main (run -s sessions)"]
STUBBED = ["the operating system (virtual FS with a canary tree, process "
           "table, environment) as observer", "stdin/stdout", "clock",
           "run host: the Interpreter constructor seen by ckl.run returns "
           "the same interpreter on every call; its constructor arguments "
           "are recorded and must say secure"]
ASSUMPTIONS = [
    "allowed effects of a secure instance: resource reads of bundled "
    "modules, and exists/open-for-read of *.ckl files in ~/.ckl/modules "
    "and the configured module path; for a run-hosted session also the "
    "host's own exists/open/read of exactly its script file",
    "a rejection of any kind (runtime error, syntax error, even a host "
    "exception at parse time) counts as 'denied'; only an observed effect, "
    "a changed canary or a flipped flag is a violation",
    "reading environment variables (get_env) is not file or process access",
]
REQUIRED_PROBES = {
    "quick": ["native_names_swept", "module_symbols_swept", "flag_attacks",
              "crawl_functions_invoked", "interleaved_nonsecure_effects",
              "secure_allowed_module_read", "flag_probe_read",
              "nonsecure_created_first", "env_shared_with_nonsecure",
              "detached_scope_calls", "secure_interpreter_created_late",
              "precreated_child_scope", "repl_hosted_secure_session", "run_hosted_secure_session",
              "home_without_ckl_dir"],
}
REQUIRED_PROBES["thorough"] = REQUIRED_PROBES["quick"]

CAN = "/sim/canary"
P1 = f"'{CAN}/f1.txt'"
P2 = f"'{CAN}/copy.txt'"
PD = f"'{CAN}'"
PNEW = f"'{CAN}/newdir'"
PROG = "'/sim/bin/tool'"
PTRAV = f"'/sim/home/../canary/f2.txt'"
PSCRIPT = f"'{CAN}/s.ckl'"
SHAPES = [
    ("p", "{F}(" + P1 + ")"),
    ("pp", "{F}(" + P1 + ", " + P2 + ")"),
    ("d", "{F}(" + PD + ")"),
    ("new", "{F}(" + PNEW + ")"),
    ("newT", "{F}(" + PNEW + ", TRUE)"),
    ("prog", "{F}(" + PROG + ", [])"),
    ("progwd", "{F}(" + PROG + ", ['a'], " + PD + ", FALSE, " + P2 + ")"),
    ("none", "{F}()"),
    ("trav", "{F}(" + PTRAV + ")"),
    ("script", "{F}(" + PSCRIPT + ")"),
    ("enc", "{F}(" + P2 + ", 'utf-8', TRUE)"),
    ("rec", "{F}(" + PD + ", TRUE, TRUE, TRUE)"),
    ("pcb", "{F}(" + P1 + ", fn(x) x)"),
    ("cbp", "{F}(fn(x) x, " + P1 + ")"),
    ("pcbp", "{F}(" + P1 + ", fn(a, b) a, " + P2 + ")"),
]
OS_NATIVES = ["execute", "file_input", "file_copy", "file_delete",
              "file_exists", "file_info", "file_move", "file_output",
              "list_dir", "make_dir", "run", "read_file"]
ALIAS_MODES = ["none", "fresh", "existing", "run", "predef", "insecure-name",
               "result", "result-alias"]
FLAG = "checkerlang_secure_mode"

_DISC = {}


def discover():
    """native names and module symbols of the tree under test; computed in
    a forked child so that creating interpreters for the discovery leaves
    no process-global trace in the process the simulated runs fork from"""
    if _DISC:
        return _DISC
    from ..driver import fork_call
    if os.environ.get("SIMCKL_NOFORK"):
        _DISC.update(_discover())
    else:
        _DISC.update(fork_call(_discover, (), 300))
    return _DISC


def _discover():
    _DISC = {}
    import inspect
    import os
    import ckl.functions as F
    from ckl.interpreter import Interpreter
    src = inspect.getsource(F.bind_native)
    names = sorted(set(re.findall(r'native == "([A-Za-z0-9_]+)"', src)))
    # cross-check with the function classes: a class the binder does not
    # mention can still be reached by name through other paths
    cls_names = set()
    for nme, obj in vars(F).items():
        if isinstance(obj, type) and nme.startswith("Func") and \
                obj is not F.FuncLambda:
            try:
                inst = obj() if nme != "FuncRun" else obj(None)
                cls_names.add(inst.name)
            except Exception:   # noqa: BLE001
                pass
    names = sorted(set(names) | cls_names)
    moddir = os.path.join(os.path.dirname(F.__file__), "modules")
    files = sorted(f[:-4] for f in os.listdir(moddir) if f.endswith(".ckl"))
    pretty = {"io": "IO", "os": "OS", "sys": "Sys"}
    modules = [pretty.get(f, f.capitalize()) for f in files]
    symbols = {}
    for legacy in (False, True):
        it = Interpreter(True, legacy)
        for m in modules:
            try:
                v = it.interpret(f"require {m}; ls({m})", "disc")
                syms = [x.value for x in v.value]
            except Exception:   # noqa: BLE001
                syms = []
            symbols[(m, legacy)] = sorted(syms)
        _DISC.setdefault("base_names", {})[legacy] = sorted(
            it.base_environment.getSymbols())
    _DISC.update({"natives": names, "modules": modules,
                  "symbols": {f"{m}|{int(lg)}": v
                              for (m, lg), v in symbols.items()}})
    return _DISC


def chunks(lst, n):
    return [lst[i:i + n] for i in range(0, len(lst), n)]


def flag_attacks():
    f = FLAG
    A = [
        f"def {f} = FALSE",
        f"def [{f}] = [FALSE]",
        f"def [a_, {f}] = [1, FALSE]",
        f"{f} = FALSE",
        f"{f} += 1", f"{f} -= 1", f"{f} *= 0", f"{f} /= 1", f"{f} %= 1",
        f"[{f}] = [FALSE]",
        f"[a_, {f}] = [1, FALSE]",
        f"for {f} in [FALSE] do bind_native('file_exists'); end",
        f"for [{f}, b_] in [[FALSE, 1]] do bind_native('file_delete'); end",
        f"def fa_({f}) do bind_native('file_delete'); bind_native("
        f"'file_exists', 'fe_'); end; fa_(FALSE)",
        f"def fb_({f} = FALSE) do bind_native('list_dir'); end; fb_()",
        f"(fn({f}) do bind_native('make_dir'); end)(FALSE)",
        f"def class {f} do def x = 1; end",
        f"require Math as {f}",
        f"require Math import [PI as {f}]",
        f"bind_native('sin', '{f}')",
        f"bind_native('PI'); def {f} = PI",
        f"[x_ for {f} in [FALSE]]",
        f"<<x_ for {f} in [FALSE]>>",
        f"do def {f} = FALSE; bind_native('file_delete'); end",
        f"put({f}, 1, 2)",
        f"remove({f}, TRUE)",
        f"def o_ = <*{f} = FALSE*>; o_->{f} = FALSE",
        f"def m_ = <<<'{f}' => FALSE>>>; def g_(a...) a; g_(...m_)",
        f"def h_({f}...) do bind_native('file_delete'); end; h_(FALSE)",
    ]
    out = list(A)
    for a in A[:12]:
        esc = a.replace("\\", "\\\\").replace("'", "\\'")
        out.append(f"eval('{esc}')")
        out.append(f"eval(parse('{esc}'))")
    return out


def detached_attacks():
    """code whose scope chain no longer reaches the interpreter's base
    environment when it runs: closures and functions created inside a
    caller-supplied environment and invoked after that environment has
    been detached again.  Each attack: (setup in session, body run in the
    caller environment, later calls from the session)"""
    body_fn = ("fn(p) do bn_('file_delete'); bn_('file_exists', 'fx_'); "
               "bn_('execute', 'ex_'); bn_('file_output', 'fo_'); "
               "[fx_(p), ex_(" + PROG + ", []), file_delete(p)]; end")
    A = []
    A.append(("def clo_ = NULL",
              "def bn_ = bind_native; clo_ = " + body_fn,
              ["clo_(" + P1 + ")"]))
    A.append(("def box_ = [NULL]",
              "def bn_ = bind_native; box_[0] = " + body_fn,
              ["box_[0](" + P1 + ")", "def g_ = box_[0]; g_(" + PD + ")"]))
    A.append(("def obj_ = <*f = NULL*>",
              "def bn_ = bind_native; obj_->f = " + body_fn,
              ["def h_ = obj_->f; h_(" + P1 + ")"]))
    A.append(("def clo_ = NULL",
              "def bn_ = bind_native; def ev_ = eval; clo_ = fn(p) "
              "ev_('do bn_(\\'file_delete\\'); file_delete(p); end')",
              ["clo_(" + P1 + ")"]))
    A.append(("def clo_ = NULL",
              "def bn_ = bind_native; def mk_() do bn_('make_dir'); "
              "bn_('list_dir'); [make_dir(" + PNEW + "), list_dir(" + PD +
              ")]; end; clo_ = mk_",
              ["clo_()"]))
    A.append(("def clo_ = NULL",
              "def " + FLAG + " = FALSE; def bn_ = bind_native; clo_ = "
              + body_fn,
              ["clo_(" + P1 + ")"]))
    return A


def detached_ops(atk, envname="DE"):
    setup, body, calls = atk
    ops = [{"inst": "S", "src": setup, "tag": "detached-setup"},
           {"inst": "S", "src": body, "tag": "detached-body",
            "env": envname}]
    for c in calls:
        ops.append({"inst": "S", "src": c, "tag": "detached-call"})
        # and once more from inside the caller environment itself
        ops.append({"inst": "S", "src": c, "tag": "detached-call",
                    "env": envname})
    return ops


def invoke_ops(F, inst="S"):
    return [{"inst": inst, "src": tpl.replace("{F}", F), "tag": tag}
            for tag, tpl in SHAPES]


def native_ops(name, mode, base_names):
    ops = []
    if mode == "insecure-name":
        # a harmless native is first bound under the name of this native,
        # then the native itself is bound and used
        ops.append({"inst": "S", "src": f"bind_native('identity', "
                    f"'{name}')", "tag": "bind-alias"})
        ops.append({"inst": "S", "src": f"bind_native('{name}')",
                    "tag": "bind"})
        return ops + invoke_ops(name)
    if mode in ("result", "result-alias"):
        # whatever the binder call itself evaluates to (also when it
        # refuses and raises) is kept as a value and used
        call = (f"bind_native('{name}')" if mode == "result"
                else f"bind_native('{name}', 'ra_{name}')")
        ops.append({"inst": "S", "src": f"def rv_{name} = NULL; "
                    f"rv_{name} = do {call}; catch all NULL; end",
                    "tag": "bind-result"})
        return ops + invoke_ops("rv_" + name)
    if mode == "none":
        ops.append({"inst": "S", "src": f"bind_native('{name}')",
                    "tag": "bind"})
        target = name
    else:
        alias = {"fresh": "al_" + name, "existing": "length",
                 "run": "run", "predef": "pd_" + name}[mode]
        if mode == "predef":
            # the native's own name is already defined in the scope
            ops.append({"inst": "S", "src": f"def {name} = NULL",
                        "tag": "predef"})
        ops.append({"inst": "S",
                    "src": f"bind_native('{name}', '{alias}')",
                    "tag": "bind-alias"})
        target = alias
    ops += invoke_ops(target)
    if mode != "none":
        ops += invoke_ops(name)[:4]
    return ops


def spill_ops():
    """a secure program writes a couple of MB through a string output
    (nothing may reach the file system, not even a temporary file)"""
    return [{"inst": "S", "src":
             "def so_ = str_output(); def big_ = 'xxxxxxxx'; "
             "for i_ in range(18) do big_ = big_ + big_; end; "
             "print(big_, so_); length(get_output_string(so_))",
             "tag": "spill"}]


def flag_probe_ops(n):
    return [{"inst": "S", "src": f"require flagprobe{n}; "
             f"[flagprobe{n}->flag, flagprobe{n}->fe, flagprobe{n}->fd]",
             "tag": "flagprobe", "expect": "[TRUE, FALSE, FALSE]"}]


def os_native_ops(prefixes=("",)):
    ops = []
    for n in OS_NATIVES:
        ops.append({"inst": "S", "src": f"bind_native('{n}')",
                    "tag": "bind"})
        for pre in prefixes:
            ops += invoke_ops(pre + n)[:6]
    return ops


def base_files(nprobes):
    files = {}
    for i in range(nprobes):
        files[f"{MOD_HOME}/flagprobe{i}.ckl"] = {"text": (
            "def flag = checkerlang_secure_mode;\n"
            "bind_native('file_exists');\nbind_native('file_delete');\n"
            "def fe = 'file_exists' in ls();\n"
            "def fd = 'file_delete' in ls();\n")}
    return files


def sweep_cases():
    """the finite part, as a deterministic list of case builders"""
    d = discover()
    cases = []
    for legacy in (False, True):
        for mode in ALIAS_MODES:
            for ch in chunks(d["natives"], 16):
                cases.append(("native", legacy, mode, ch))
        for m in d["modules"]:
            for form in ("plain", "as", "unq", "imp"):
                cases.append(("module", legacy, form, m))
        for ch in chunks(flag_attacks(), 8):
            cases.append(("flag", legacy, "top", ch))
            cases.append(("flag", legacy, "module", ch))
            cases.append(("flag", legacy, "env", ch))
        cases.append(("crawl", legacy, None, None))
        cases.append(("detached", legacy, None, None))
        cases.append(("nohome", legacy, None, None))
    return cases


def build_sweep(spec):
    kind, legacy, a, b = spec
    d = discover()
    cfg = {"legacy": legacy, "nonsecure": False, "prng": 0.5}
    files = base_files(40)
    ops = []
    if kind == "native":
        for name in b:
            ops += native_ops(name, a, d["base_names"][legacy])
        ops += flag_probe_ops(0)
    elif kind == "module":
        m = b
        syms = d["symbols"].get(f"{m}|{int(legacy)}", [])
        if a == "plain":
            ops.append({"inst": "S", "src": f"require {m}", "tag": "req"})
            for s in syms:
                ops += invoke_ops(f"{m}->{s}")
        elif a == "as":
            ops.append({"inst": "S", "src": f"require {m} as Mx",
                        "tag": "req"})
            for s in syms:
                ops += invoke_ops(f"Mx->{s}")
        elif a == "unq":
            ops.append({"inst": "S", "src": f"require {m} unqualified",
                        "tag": "req"})
            for s in syms:
                ops += invoke_ops(s)
        else:
            for s in syms:
                ops.append({"inst": "S", "src":
                            f"require {m} import [{s} as im_{s}]",
                            "tag": "req"})
                ops += invoke_ops(f"im_{s}")
        ops += os_native_ops()[:40]
        ops += flag_probe_ops(0)
    elif kind == "flag":
        n = 0
        for atk in b:
            if a == "top":
                ops.append({"inst": "S", "src": atk, "tag": "flag-attack"})
            elif a == "env":
                # at the top level of a fresh caller-supplied environment,
                # followed by the natives from inside that environment
                n += 1
                ename = f"FE{n}"
                ops.append({"inst": "S", "src": atk, "tag": "flag-attack",
                            "env": ename})
                for o in os_native_ops(("", "fe_"))[:40]:
                    ops.append(dict(o, env=ename))
                for o in os_native_ops(("", "fe_"))[:24]:
                    ops.append(dict(o, env=ename + "/child"))
                ops.append({"inst": "S", "src": "require OS; require IO; "
                            "OS->file_exists(" + P1 + ")", "tag": "req",
                            "env": ename})
            else:
                n += 1
                files[f"{MOD_HOME}/atk{n}.ckl"] = {"text": atk + ";\n" + (
                    "bind_native('file_delete');\n"
                    "def hit = 'file_delete' in ls();\n")}
                ops.append({"inst": "S", "src": f"require atk{n}",
                            "tag": "flag-attack"})
                ops.append({"inst": "S", "src": f"require atk{n} "
                            "unqualified", "tag": "flag-attack"})
            ops += os_native_ops(("", "fe_"))[:60]
            ops += flag_probe_ops(len([o for o in ops
                                       if o["tag"] == "flagprobe"]))
    elif kind == "nohome":
        ops.append({"inst": "S", "src": "require nosuchmod9",
                    "tag": "usermod"})
        ops.append({"inst": "S", "src": "require flagprobe1; 1",
                    "tag": "usermod"})
        ops += os_native_ops()[:30] + spill_ops() + flag_probe_ops(0)
        return relocate({"config": cfg, "files": files, "ops": ops,
                         "sweep": [kind, legacy, None]})
    elif kind == "detached":
        for i, atk in enumerate(detached_attacks()):
            ops += detached_ops(atk, f"DE{i}")
        ops += flag_probe_ops(0)
    elif kind == "crawl":
        ops += spill_ops()
        ops.append({"inst": "S", "src": "require IO; require OS; require "
                    "Sys; require List; require String", "tag": "req"})
        ops.append({"inst": "S", "kind": "crawl", "src": "", "tag": "crawl"})
        ops += flag_probe_ops(0)
    return {"config": cfg, "files": files, "ops": ops,
            "sweep": [kind, legacy, a if isinstance(a, str) else None]}


def gen_case(rng, tier, k):
    sw = sweep_cases()
    if k < len(sw):
        return build_sweep(sw[k])
    return gen_session(rng, tier)


def relocate(case):
    """variant of a case in which HOME has no ~/.ckl at all: the user
    modules live in a directory named by checkerlang_module_path"""
    case["config"]["home_missing"] = True
    case["files"] = {k.replace(MOD_HOME, "/sim/mods"): v
                     for k, v in case["files"].items()}
    return case


def gen_session(rng, tier):
    case = _gen_session(rng, tier)
    if rng.random() < 0.3:
        relocate(case)
        case["ops"].insert(0, {"inst": "S", "src": "require nosuchmod9",
                               "tag": "usermod"})
    return case


def _gen_session(rng, tier):
    d = discover()
    legacy = rng.random() < 0.4
    cfg = {"legacy": legacy, "nonsecure": True, "prng": round(rng.random(),
                                                              6),
           "n_legacy": rng.random() < 0.7,
           "n_first": rng.random() < 0.5,
           "share_env": rng.random() < 0.5}
    if rng.random() < 0.2:
        # the secure instance is an interactive `repl -s` session
        cfg["host"] = "repl"
        if rng.random() < 0.35:
            # ... or every command is a script given to `run -s`
            cfg["host"] = "run"
        cfg["share_env"] = False
    files = base_files(12)
    files[f"{MOD_HOME}/umod.ckl"] = {"text": (
        "bind_native('file_delete');\nbind_native('execute');\n"
        "def tryit(p) do file_delete(p); end;\n"
        "def flag = checkerlang_secure_mode;\n")}
    files[f"{MOD_HOME}/ubad.ckl"] = {"text": "def x = ;\n"}
    evil = ("def checkerlang_secure_mode = FALSE;\n"
            "bind_native('file_delete');\nbind_native('execute');\n"
            "bind_native('file_exists');\ndef PS = '/';\n")
    for nm in ("OS", "IO", "Sys", "os", "io"):
        files[f"{MOD_HOME}/{nm}.ckl"] = {"text": evil}
    files[f"{MOD_HOME}/ufail.ckl"] = {"text": (
        "bind_native('file_output');\nerror 'nope';\n")}
    ops = []
    nprobe = 0
    attacks = flag_attacks()
    need_late = [False]
    nops = rng.randrange(5, 41)
    wseq = 0
    for _ in range(nops):
        r = rng.random()
        if r < 0.35:
            # the non-secure neighbour does legitimate work
            wseq += 1
            w = f"/sim/work/w{wseq}"
            src = rng.choice([
                f"def o_ = file_output('{w}.txt'); print('data', o_); "
                f"close(o_)",
                f"make_dir('{w}')",
                f"list_dir('/sim/work')",
                f"file_exists('{CAN}/f1.txt')",
                f"execute('/sim/bin/tool', ['x'])",
                f"file_copy('{CAN}/f1.txt', '{w}.copy')",
                f"bind_native('file_delete', 'fdel_'); "
                f"bind_native('file_delete')",
                f"read_file('{CAN}/f1.txt')",
                f"def i_ = file_input('{CAN}/f2.txt'); read_all(i_)",
                f"require umod; umod->flag",
                f"run('{CAN}/s.ckl')",
                # the very text the secure instance will also evaluate
                "require IO; require OS; require Sys",
                "require IO; require OS; require Sys",
                "require OS unqualified",
            ])
            if rng.random() < 0.25:
                src = rng.choice(["def x = ;", "1 / 0", "error 'n'",
                                  "do 1; 2", src + "; undefined_zz"])
            o = {"inst": "N", "src": src, "tag": "neighbour"}
            if cfg["share_env"] and rng.random() < 0.5:
                # in a caller-supplied environment that the secure
                # interpreter will also be given, the neighbour only runs
                # commands that define nothing there: what a host puts into
                # an environment it hands to a secure interpreter is the
                # host's business, not a sandbox escape
                o["env"] = rng.choice(["E1", "E2"])
                o["src"] = rng.choice([
                    "def x = ;", "1 / 0", "error 'n'", "do 1; 2", "1 +",
                    f"file_exists('{CAN}/f1.txt')", "list_dir('/sim/work')",
                    f"file_exists('{CAN}/f1.txt'); undefined_zz",
                    "checkerlang_secure_mode", "run"])
            ops.append(o)
            continue
        faults = []
        fsteps = []
        if r < 0.55:
            name = rng.choice(d["natives"] if rng.random() < 0.5
                              else OS_NATIVES)
            mode = rng.choice(ALIAS_MODES)
            sub = native_ops(name, mode, None)
            take = [sub[0]] + rng.sample(sub[1:], min(len(sub) - 1,
                                                      rng.randrange(1, 4)))
            new = take
        elif r < 0.67:
            m = rng.choice(d["modules"])
            syms = d["symbols"].get(f"{m}|{int(legacy)}", []) or ["x"]
            s = rng.choice(syms)
            form = rng.choice(["plain", "as", "unq", "imp"])
            if form == "plain":
                new = [{"inst": "S", "src": f"require {m}", "tag": "req"}]
                F = f"{m}->{s}"
            elif form == "as":
                new = [{"inst": "S", "src": f"require {m} as Mz",
                        "tag": "req"}]
                F = f"Mz->{s}"
            elif form == "unq":
                new = [{"inst": "S", "src": f"require {m} unqualified",
                        "tag": "req"}]
                F = s
            else:
                new = [{"inst": "S", "src": f"require {m} import "
                        f"[{s} as iz_{s}]", "tag": "req"}]
                F = f"iz_{s}"
            new += rng.sample(invoke_ops(F), 2)
        elif r < 0.78:
            atk = rng.choice(attacks)
            new = [{"inst": "S", "src": atk, "tag": "flag-attack"}]
            new += rng.sample(os_native_ops(("", "fe_")), 4)
            if rng.random() < 0.35:
                en = "FE" + str(rng.randrange(4))
                new = [dict(new[0], env=en)] + [
                    dict(o, env=en + rng.choice(["", "/child"]))
                    for o in new[1:]]
            new += flag_probe_ops(nprobe % 12)
            nprobe += 1
        elif r < 0.80:
            # identical script text (and file name) as the neighbour uses
            new = [{"inst": "S", "src": rng.choice([
                "require IO; require OS; require Sys",
                "require OS unqualified"]), "tag": "req"}]
            new += rng.sample(invoke_ops("IO->file_input") +
                              invoke_ops("OS->file_delete") +
                              invoke_ops("OS->execute") +
                              invoke_ops("file_exists"), 4)
        elif r < 0.82:
            # a user module whose file name collides with a bundled module
            new = [{"inst": "S", "src": rng.choice([
                "require 'vendor/OS'", "require 'vendor/IO.ckl'",
                "require 'x/Sys'", "require 'vendor/OS' unqualified",
                # module specs that try to leave the module directories
                "require '../../../canary/s'; s->from_script",
                "require '../canary/s.ckl' unqualified",
                "require '../../canary/s' as esc_; esc_->from_script",
                f"require '{CAN}/s'; s->from_script",
                "def sp_ = '../../../canary/s'; require sp_",
                "require 'vendor/../../../../canary/s.ckl'"]),
                "tag": "usermod"}]
            new += rng.sample(os_native_ops(), 3)
            need_late[0] = True
        elif r < 0.84:
            new = detached_ops(rng.choice(detached_attacks()),
                               "DE" + str(rng.randrange(3)))
        elif r < 0.88:
            new = [{"inst": "S", "src": rng.choice([
                "require umod; umod->tryit(" + P1 + ")",
                "require umod unqualified; tryit(" + P1 + ")",
                "require ubad", "require ufail", "require nosuchmod",
                "require umod; umod->flag"]), "tag": "usermod"}]
            if rng.random() < 0.4:
                faults = [rng.choice([
                    {"site": "fs.open", "path": ".ckl", "err": "EIO"},
                    {"site": "fs.read", "path": ".ckl", "err": "EIO"},
                    {"site": "pkg.read", "path": "modules/", "err": "EIO"}])]
        elif r < 0.985:
            new = [{"inst": "S", "src": rng.choice([
                "1 / 0", "error 'x'", "undefined_zz", "def x = ;",
                "do bind_native('file_delete'); error 'after'; end",
                "def rec_(n) rec_(n + 1); rec_(0)",
                "def rec_(n) rec_(n + 1); rec_(0)",
                "do file_delete(" + P1 + "); catch all 1; end"]),
                "tag": "failing"}]
            if tier == "thorough" and rng.random() < 0.5:
                fsteps = [rng.randrange(1, 12)]
        else:
            new = [{"inst": "S", "kind": "crawl", "src": "",
                    "tag": "crawl"}]
        senv = None
        if cfg["share_env"] and rng.random() < 0.4:
            # the caller hands the secure interpreter an environment the
            # non-secure one has used (or will use)
            senv = rng.choice(["E1", "E2"])
            new = new + rng.sample(os_native_ops(), 3) + [
                {"inst": "S", "src": "run(" + PSCRIPT + ")",
                 "tag": "script"}]
        for o in new:
            o = dict(o)
            if faults:
                o["faults"] = faults
            if fsteps:
                o["steps"] = fsteps
            if senv and o.get("kind") != "crawl" and "env" not in o \
                    and o.get("tag") != "flagprobe" \
                    and not o.get("tag", "").startswith("detached"):
                o["env"] = senv
            ops.append(o)
    ops += flag_probe_ops(nprobe % 12)
    if rng.random() < 0.5 or need_late[0]:
        # a second secure interpreter is created late in the life of the
        # process, after everything above has happened, and is attacked too
        at = rng.randrange(len(ops) // 2, len(ops) + 1)
        if need_late[0]:
            at = len(ops)
        late = [{"kind": "spawn", "inst": "S2", "src": "",
                 "legacy": rng.random() < (0.9 if need_late[0] else 0.6),
                 "tag": "spawn"}]
        late += [dict(o, inst="S2") for o in os_native_ops()[:30]]
        late += [{"inst": "S2", "src": "require OS; require IO; "
                  "[OS->file_exists(" + P1 + ")]", "tag": "req"}]
        late += [dict(o, inst="S2") for o in
                 invoke_ops("OS->file_delete")[:4]
                 + invoke_ops("IO->file_input")[:3]]
        late += [dict(o, inst="S2") for o in flag_probe_ops(11)]
        ops[at:at] = late
    return {"config": cfg, "files": files, "ops": ops}


# ------------------------------------------------------------------------

def allowed_for_secure(ev, moddirs, host_script=None):
    """is this world event a permitted effect of a secure instance?
    host_script: the script file the run host itself reads (its own
    existence test, open and read of exactly that path are the host's,
    not the program's)"""
    from ..world import SUT_SRC
    moddirs = list(moddirs) + [SUT_SRC + "/ckl/modules"]
    import posixpath
    kind = ev[2]
    if kind in ("out", "in", "console", "clock", "outcome", "fault",
                "outclose", "inclose"):
        return True
    if kind == "pkg":
        return True

    def inside(path):
        # judged on the normalised path: a module source is a .ckl file
        # *in* a module directory, not one reached from it through `..`
        path = posixpath.normpath(str(path))
        return path.endswith(".ckl") and any(
            path.startswith(d + "/") for d in moddirs)
    if kind == "stat":
        return inside(ev[4]) or (ev[3] == "exists" and ev[4] == host_script)
    if kind == "open":
        path, mode = ev[3], ev[4]
        return mode in ("r", "rt") and (inside(path) or path == host_script)
    if kind == "fsread":
        return inside(ev[3]) or ev[3] == host_script
    return False


def op_signature(op, ev):
    tag = op.get("tag", "?")
    src = op.get("src", "")
    what = ev[2] + ":" + str(ev[3])
    # name the callee: the identifier before the first '(' of the source
    m = re.match(r"\s*([A-Za-z_][A-Za-z0-9_>\-]*)\s*\(", src)
    callee = m.group(1) if m else tag
    return f"{tag}:{callee}:{what}"


def run_case(case, root):
    cfg = case["config"]
    sim = Sim(root, cfg.get("prng", 0.5), budget=40_000)
    res = {"violations": [], "probes": {}, "counters": {}, "configured": {},
           "extra_fps": []}
    viol = res["violations"]
    probes = res["probes"]
    observed = []

    def V(clause, sig, detail):
        if len(viol) < 6 and not any(v["sig"] == f"{ID}:{sig}"
                                     for v in viol):
            viol.append({"clause": clause, "sig": f"{ID}:{sig}",
                         "detail": detail})

    try:
        w = sim.w
        w.put_file(f"{CAN}/f1.txt", "canary one\n")
        w.put_file(f"{CAN}/f2.txt", "canary two\n")
        w.put_file(f"{CAN}/sub/f3.txt", "canary three\n")
        w.put_file(f"{CAN}/s.ckl", "def from_script = 1; from_script")
        w.put_file("/sim/bin/tool", "#!tool\n")
        w.put_dir("/sim/work")
        w.programs["/sim/bin/tool"] = (0, "out\n")
        for vpath, entry in sorted(case.get("files", {}).items()):
            w.put_file(vpath, entry["text"])
        home_missing = cfg.get("home_missing")
        if not home_missing:
            w.put_dir(MOD_HOME)
        else:
            probes["home_without_ckl_dir"] = 1
        before = w.snapshot(CAN)
        home_before = w.snapshot("/sim/home")
        N = None
        if cfg.get("nonsecure") and cfg.get("n_first"):
            # the non-secure neighbour exists (and has bound its natives)
            # before the secure interpreter is created
            N = sim.new_interpreter("N", False, cfg.get("n_legacy", True))
            probes["nonsecure_created_first"] = 1
        host = None
        stuck = []
        host_script = None
        if cfg.get("host") in ("repl", "run"):
            from ..replhost import ReplHost, RunHost
            HostCls = RunHost if cfg["host"] == "run" else ReplHost
            if cfg["host"] == "run":
                host_script = RunHost.SCRIPT
            host = HostCls(sim, "S", True, cfg["legacy"],
                           "/sim/mods" if cfg.get("home_missing") else None)
            w.actor = "S"
            w.sut_running = True
            try:
                started = host.start()
            finally:
                w.sut_running = False
                w.actor = "-"
            if not started:
                raise HarnessError(f"REPL did not start: {host.exc!r}")
            S = sim.inst["S"]
            probes[cfg["host"] + "_hosted_secure_session"] = 1
        else:
            S = sim.new_interpreter("S", True, cfg["legacy"])
        if cfg.get("nonsecure") and N is None:
            N = sim.new_interpreter("N", False, cfg.get("n_legacy", True))
        moddirs = [MOD_HOME]
        if home_missing:
            from ckl.values import ValueList, ValueString
            moddirs.append("/sim/mods")
            for itx in list(sim.inst.values()):
                lst = ValueList()
                lst.addItem(ValueString("/sim/mods"))
                itx.base_environment.put("checkerlang_module_path", lst)
        envs = {}
        used_by = {}
        nsecure_ops = 0
        nshape = 0
        for idx, op in enumerate(case["ops"]):
            inst = op.get("inst", "S")
            if op.get("kind") == "spawn":
                if inst not in sim.inst:
                    itn = sim.new_interpreter(inst, True,
                                              op.get("legacy", False))
                    if home_missing:
                        from ckl.values import ValueList, ValueString
                        lst = ValueList()
                        lst.addItem(ValueString("/sim/mods"))
                        itn.base_environment.put("checkerlang_module_path",
                                                 lst)
                    probes["secure_interpreter_created_late"] = 1
                continue
            if inst == "N" and N is None:
                continue
            if inst not in sim.inst:
                continue
            it = sim.inst[inst]
            n_ev = len(w.trace)
            if op.get("kind") == "crawl":
                if not inst.startswith("S"):
                    continue
                ninv = crawl_and_invoke(sim, it, idx, probes, inst)
                probes["crawl_functions_invoked"] = probes.get(
                    "crawl_functions_invoked", 0) + ninv
                out = {"kind": "val", "val": f"crawled {ninv}",
                       "fired": []}
            else:
                src = op["src"]
                env = None
                if op.get("env"):
                    ename = op["env"]
                    rootname = ename.split("/")[0]
                    if rootname not in envs:
                        from ckl.functions import Environment
                        envs[rootname] = Environment()
                        # a child scope that exists before the root is
                        # ever handed to an interpreter
                        envs[rootname + "/child"] = envs[rootname].newEnv()
                    env = envs[ename]
                    used_by.setdefault(rootname, set()).add(inst)
                    if ename.endswith("/child"):
                        probes["precreated_child_scope"] = 1
                    if len(used_by[rootname]) > 1:
                        probes["env_shared_with_nonsecure"] = 1
                if host is not None and inst == "S":
                    if not host.alive or stuck:
                        continue      # the session has ended: nothing runs
                    if "\n" in src or op.get("env"):
                        continue

                    def via_repl():
                        from ckl.errors import CklSyntaxError
                        calls, printed = host.send(src)
                        tries = 0
                        while host.alive and host.prompts and \
                                host.prompts[-1].startswith("+"):
                            tries += 1
                            if tries > 2:
                                # this REPL keeps asking for continuation
                                # lines (a parser exception it cannot get
                                # past): the session is over for us
                                stuck.append(True)
                                break
                            c2, p2 = host.send(")")
                            calls = calls + c2
                        if not calls:
                            raise CklSyntaxError("rejected by the REPL")
                        if calls[-1][0] == "exc":
                            raise calls[-1][1]
                        return calls[-1][1]
                    out = sim.run(idx, inst, op.get("faults", []), via_repl,
                                  fault_steps=tuple(op.get("steps", ())))
                    # the REPL may have replaced its interpreter
                    it = sim.inst["S"]
                    S = it
                else:
                    out = sim.run(idx, inst, op.get("faults", []),
                                  lambda: it.interpret(src, "c", env),
                                  fault_steps=tuple(op.get("steps", ())))
            evs = w.trace[n_ev:]
            if inst == "N":
                if any(e[2] in ("open", "os", "proc") for e in evs):
                    probes["interleaved_nonsecure_effects"] = probes.get(
                        "interleaved_nonsecure_effects", 0) + 1
                continue
            nsecure_ops += 1
            tag = op.get("tag", "")
            if tag in ("bind", "bind-alias"):
                probes["native_names_swept"] = probes.get(
                    "native_names_swept", 0) + 1
            if tag == "flag-attack":
                probes["flag_attacks"] = probes.get("flag_attacks", 0) + 1
            if tag == "detached-call" and out["kind"] != "syn":
                probes["detached_scope_calls"] = probes.get(
                    "detached_scope_calls", 0) + 1
            if tag in SHAPE_TAGS:
                nshape += 1
                res["extra_fps"].append(fingerprint(
                    (op["src"], cfg["legacy"])))
                if "->" in op["src"].split("(")[0] or tag:
                    pass
            if tag == "req":
                probes["module_symbols_swept"] = probes.get(
                    "module_symbols_swept", 0) + 1
            if out["kind"] == "budget":
                # not a sandbox question (C13's business): a call that
                # runs out of budget has simply not been allowed anything
                probes["budget_hit"] = probes.get("budget_hit", 0) + 1
            for e in evs:
                if not e[1].startswith("S"):
                    continue
                if e[2] in ("open", "stat", "fsread") and \
                        allowed_for_secure(e, moddirs, host_script):
                    probes["secure_allowed_module_read"] = probes.get(
                        "secure_allowed_module_read", 0) + 1
                if not allowed_for_secure(e, moddirs, host_script):
                    V("no-os-effect", "effect:" + op_signature(op, e),
                      f"op#{idx} on the secure instance `{op.get('src')}` "
                      f"caused the OS event {e[2:]} (outcome {out['kind']} "
                      f"{out.get('val', '')[:60]})")
                    break
            if viol:
                break
            if tag == "flagprobe":
                probes["flag_probe_read"] = probes.get("flag_probe_read",
                                                       0) + 1
                if out["kind"] == "val" and out["val"] != op["expect"]:
                    V("flag", "flag-or-binding-changed",
                      f"op#{idx} a freshly loaded module sees "
                      f"[flag, file_exists bound, file_delete bound] = "
                      f"{out['val']} (expected {op['expect']}) after "
                      f"{[o.get('src') for o in case['ops'][max(0, idx - 3):idx]]}")
                    break
                if out["kind"] != "val" and not out["fired"] and \
                        "already" not in str(out.get("msg")):
                    # the probe module could not even be loaded
                    V("flag", "flag-probe-failed",
                      f"op#{idx} flag probe failed: {out}")
                    break
            if len(observed) < 6 or tag in ("flag-attack", "flagprobe"):
                observed.append({"op": idx, "src": op.get("src", "")[:120],
                                 "kind": out["kind"],
                                 "val": out.get("val", "")[:60]})
                if len(observed) > 10:
                    observed.pop(0)
        if host is not None:
            S = sim.inst["S"]
            # every interpreter a host started with -s constructs must be
            # a secure one, whatever the scripts contained
            for a, k in host.ctor:
                sec = a[0] if a else k.get("secure", True)
                if not sec and not viol:
                    V("host-secure-flag", "host-ctor-not-secure",
                      f"the {cfg['host']} host was started with -s but "
                      f"constructed Interpreter{a!r}{k!r}")
        # `run` must not exist in a secure interpreter
        if not viol:
            out = sim.run(len(case["ops"]), "S", [], lambda: S.interpret(
                "'run' in ls()", "c"))
            runs_defined = out["kind"] == "val" and out["val"] == "TRUE"
            if runs_defined:
                # an alias named run is legitimate; what must not exist is
                # the script runner: calling it must not read the script
                n_ev = len(w.trace)
                sim.run(len(case["ops"]) + 1, "S", [], lambda: S.interpret(
                    "run(" + PSCRIPT + ")", "c"))
                for e in w.trace[n_ev:]:
                    if e[1] == "S" and not allowed_for_secure(e, moddirs, host_script):
                        V("no-os-effect", "effect:run-defined",
                          f"`run` is callable in the secure interpreter and "
                          f"touched the OS: {e[2:]}")
        if w.snapshot("/sim/home") != home_before and not viol and \
                not cfg.get("nonsecure"):
            V("no-os-effect", "home-changed",
              f"the HOME tree changed: {home_before} -> "
              f"{w.snapshot('/sim/home')}")
        after = w.snapshot(CAN)
        if before != after and not viol:
            # was it the neighbour? it never writes below the canary
            V("canary", "canary-changed",
              f"canary tree changed: before {before} after {after}")
        if w.bypass:
            for b in w.bypass:
                V("no-os-effect", "bypass:" + str(b[0]),
                  f"audit hook saw an access that bypassed the seams: {b}")
        res["nops"] = len(case["ops"])
        res["evals"] = max(1, nsecure_ops)
        res["counters"] = {"secure_commands": nsecure_ops,
                           "call_shapes": nshape}
        res["fp"] = fingerprint([o.get("src") for o in case["ops"]])
        res["nontrivial"] = "sweep" not in case
    finally:
        res["digest"] = sim.w.digest()
        res["fired"] = dict(sim.w.fired)
        res["steps"] = sim.clock.total
        res["faulty"] = bool(sim.w.fired)
        res["observed"] = observed
        try:
            if locals().get("host") is not None:
                host.stop()
        finally:
            sim.close()
    return res


SHAPE_TAGS = {t for t, _ in SHAPES}


def crawl_and_invoke(sim, S, idx, probes, actor="S"):
    """collect every function value reachable from the interpreter's
    environments and invoke it with the path-like call shapes"""
    from ckl.values import (ValueFunc, ValueObject, ValueList, ValueSet,
                            ValueMap, Value)
    seen_ids = set()
    funcs = []
    stack = []

    def push_env(env):
        while env is not None and id(env) not in seen_ids:
            seen_ids.add(id(env))
            for nme in sorted(env.map):
                stack.append(env.map[nme])
            mods = getattr(env, "modules", None)
            if isinstance(mods, dict):
                for mk in sorted(mods):
                    push_env(mods[mk])
            env = env.parent

    push_env(S.environment)
    while stack:
        v = stack.pop()
        if not isinstance(v, Value) or id(v) in seen_ids:
            continue
        seen_ids.add(id(v))
        if isinstance(v, ValueFunc):
            funcs.append(v)
            lex = getattr(v, "lexicalEnv", None)
            if lex is not None:
                push_env(lex)
            for dv in getattr(v, "defValues", []) or []:
                val = getattr(dv, "value", None)
                if isinstance(val, Value):
                    stack.append(val)
            inner = getattr(v, "interpreter", None)
            if inner is not None:
                push_env(inner.environment)
        elif isinstance(v, ValueObject):
            for k in sorted(v.value):
                stack.append(v.value[k])
        elif isinstance(v, ValueList):
            stack.extend(v.value)
        elif isinstance(v, ValueSet):
            stack.extend(sorted(v.value, key=lambda x: str(type(x))))
        elif isinstance(v, ValueMap):
            for k in v.value:
                stack.append(k)
                stack.append(v.value[k])
    funcs.sort(key=lambda f: (f.name, type(f).__name__))
    n = 0
    for fn in funcs:
        S.environment.put("crawl_f_", fn)
        for tag, tpl in SHAPES[:7]:
            src = tpl.replace("{F}", "crawl_f_")
            sim.run(idx, actor, [], lambda: S.interpret(src, "crawl"))
            n += 1
    S.environment.remove("crawl_f_")
    return len(funcs)


def _mut(name, file, old, new, count=1):
    return {"prop": ID, "name": name, "file": file, "old": old, "new": new,
            "count": count}


MUTANTS = [
    _mut("file_delete-secure-flag-forgotten", "ckl/functions.py",
         """            ["file_delete(filename)", "", "Deletes the specified file."]
        )
        self.secure = False""",
         """            ["file_delete(filename)", "", "Deletes the specified file."]
        )"""),
    _mut("file_exists-secure-flag-forgotten", "ckl/functions.py",
         """                "Returns TRUE if the specified file exists.",
            ]
        )
        self.secure = False""",
         """                "Returns TRUE if the specified file exists.",
            ]
        )"""),
    _mut("execute-secure-flag-forgotten", "ckl/functions.py",
         """                "arguments in the list args.",
            ]
        )
        self.secure = False""",
         """                "arguments in the list args.",
            ]
        )"""),
    _mut("binder-condition-inverted", "ckl/functions.py",
         """        environment.getBase().get("checkerlang_secure_mode").value
        and not func.secure""",
         """        not environment.getBase().get("checkerlang_secure_mode").value
        and not func.secure"""),
    _mut("binder-reads-flag-from-current-env", "ckl/functions.py",
         """        environment.getBase().get("checkerlang_secure_mode").value
        and not func.secure""",
         """        environment.get("checkerlang_secure_mode").value
        and not func.secure"""),
    _mut("run-registered-unconditionally", "ckl/interpreter.py",
         """        if not secure:
            self.base_environment.put("run", FuncRun(self))""",
         """        self.base_environment.put("run", FuncRun(self))"""),
    _mut("assign-guard-removed", "ckl/nodes.py",
         """    def __init__(self, identifier, expression, pos):
        if identifier.startswith("checkerlang_"):
            raise CklSyntaxError(
                f"Cannot assign to system variable {identifier}", self.pos
            )
        self.identifier = identifier""",
         """    def __init__(self, identifier, expression, pos):
        self.identifier = identifier"""),
    _mut("destructuring-assign-guard-removed", "ckl/nodes.py",
         """        for identifier in identifiers:
            if identifier.startswith("checkerlang_"):
                raise CklSyntaxError(
                    f"Cannot assign to system variable {identifier}", self.pos
                )
        self.identifiers = identifiers
        self.expression = expression
        self.pos = pos

    def evaluate(self, environment):
        values = self.expression.evaluate(environment)
        if values.isList():
            values = values.value""",
         """        self.identifiers = identifiers
        self.expression = expression
        self.pos = pos

    def evaluate(self, environment):
        values = self.expression.evaluate(environment)
        if values.isList():
            values = values.value"""),
    _mut("secure-decision-cached-process-wide", "ckl/functions.py",
         """def bind_native_fun(environment, func, alias=None):
    if (
        environment.getBase().get("checkerlang_secure_mode").value
        and not func.secure
    ):
        return
    add(environment, func, alias)""",
         """_secure_cache = []


def bind_native_fun(environment, func, alias=None):
    if not _secure_cache:
        _secure_cache.append(
            environment.getBase().get("checkerlang_secure_mode").value)
    if _secure_cache[0] and not func.secure:
        return
    add(environment, func, alias)"""),
    _mut("new-native-touching-os-without-flag", "ckl/functions.py",
         """    def execute(self, args, environment, pos):
        return ValueString(os.environ.get(args.getString("var").value, ""))""",
         """    def execute(self, args, environment, pos):
        name = args.getString("var").value
        if os.path.exists(name):
            with open(name) as f:
                return ValueString(f.read())
        return ValueString(os.environ.get(name, ""))"""),
    _mut("alias-path-skips-check", "ckl/functions.py",
         """    elif native == "file_copy":
        bind_native_fun(environment, FuncFileCopy(), alias)""",
         """    elif native == "file_copy":
        if alias is not None:
            add(environment, FuncFileCopy(), alias)
        else:
            bind_native_fun(environment, FuncFileCopy(), alias)"""),
]
