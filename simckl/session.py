"""Running histories of commands against real Interpreter instances inside
the simulated world, side by side with the reference model (lang.Machine).

Used by C10 (sessions survive failed calls) and C11 (require semantics).
"""
import hashlib
import signal
import threading

from . import lang, seams, steps
from .lang import Err, HostErr, SynErr, Unspec
from .sut import HarnessError
from .world import SimDeadlock, SimIn, SimOut, World

MOD_HOME = "/sim/home/.ckl/modules"


OP_WALL_S = 8.0


def _on_alarm(signum, frame):
    raise steps.StepBudgetExceeded(
        f"operation still running after {OP_WALL_S}s of wall time "
        "(loop outside evaluate/execute)")


class Sim:
    """one simulated run: world + seams + step clock + interpreters"""

    def __init__(self, root, prng=0.5, budget=400_000):
        self.w = World(root)
        seams.install(self.w, prng)
        self.clock = steps.StepClock(self.w, budget)
        self.clock.start()
        self.inst = {}
        self.outs = {}
        self.ins = {}

    def new_interpreter(self, name, secure=True, legacy=False, stdin="",
                        stdin_kind="protocol"):
        from ckl.interpreter import Interpreter
        it = Interpreter(secure, legacy)
        out = SimOut(self.w, name + ".out")
        if stdin_kind == "text":
            from .world import SimTextIn
            inp = SimTextIn(self.w, stdin, name + ".in")
        else:
            inp = SimIn(self.w, stdin, name + ".in")
        it.setStandardOutput(out)
        it.setStandardInput(inp)
        self.inst[name] = it
        self.outs[name] = out
        self.ins[name] = inp
        return it

    def run(self, index, actor, faults, thunk, fault_steps=()):
        """execute thunk() as operation `index` of `actor` under `faults`;
        returns the observed outcome"""
        from ckl.errors import CklRuntimeError, CklSyntaxError
        w = self.w
        w.begin_op(index, actor, faults)
        self.clock.begin_op(fault_steps)
        guard = threading.current_thread() is threading.main_thread()
        if guard:
            # last-resort watchdog for loops that never enter evaluate/
            # execute (the step budget cannot see those); an infinite loop
            # is caught every time, so the report still replays
            old = signal.signal(signal.SIGALRM, _on_alarm)
            signal.setitimer(signal.ITIMER_REAL, OP_WALL_S)
        w.sut_running = True
        try:
            try:
                v = thunk()
                out = {"kind": "val", "val": safe_str(v)}
            except CklRuntimeError as e:
                out = {"kind": "rt", "val": safe_str(e.value),
                       "msg": safe_str(e.msg), "pos": safe_str(e.pos),
                       "cls": "CklRuntimeError",
                       "trace": [safe_str(x) for x in
                                 (getattr(e, "stacktrace", None) or [])]}
            except CklSyntaxError as e:
                out = {"kind": "syn", "val": "", "msg": safe_str(e.msg),
                       "pos": safe_str(e.pos), "cls": "CklSyntaxError"}
            except steps.StepBudgetExceeded as e:
                out = {"kind": "budget", "val": "", "msg": str(e),
                       "cls": "StepBudgetExceeded"}
            except SimDeadlock as e:
                out = {"kind": "budget", "val": "", "msg": str(e),
                       "cls": "SimDeadlock"}
            except RecursionError as e:
                out = {"kind": "host", "val": "", "msg": "recursion",
                       "cls": "RecursionError"}
            except Exception as e:   # noqa: BLE001  host exception escaped
                out = {"kind": "host", "val": "",
                       "msg": safe_str(e)[:200], "cls": type(e).__name__}
        finally:
            w.sut_running = False
            if guard:
                signal.setitimer(signal.ITIMER_REAL, 0)
                signal.signal(signal.SIGALRM, old)
        out["steps"] = self.clock.in_op
        out["fired"] = list(w.fired_in_op)
        w.log("outcome", out["kind"], out.get("val", ""), out.get("cls", ""))
        w.end_op()
        return out

    def close(self):
        try:
            self.clock.stop()
        finally:
            seams.uninstall()
            self.w.destroy()


def safe_str(v):
    try:
        return str(v)
    except Exception as e:   # noqa: BLE001
        return f"<unprintable {type(e).__name__}>"


contains_raw = lang.contains_raw


def model_run(machine, stmts, scope, faults, persistent):
    """run one command on the reference model; returns (outcome, events)"""
    machine.io = lang.FaultMirror(faults or [], persistent)
    machine.events = []
    machine.effects = 0
    fired = []
    orig_hit = machine.io.hit

    def hit(site, path=None):
        f = orig_hit(site, path)
        if f is not None:
            fired.append((site, f.get("err", "EIO")))
        return f
    machine.io.hit = hit
    try:
        if contains_raw(stmts):
            raise SynErr()
        r = machine.run_block(stmts, scope)
        if isinstance(r, lang.Ctl):
            if r.kind == "ret":
                out = ("val", r.value)
            else:
                out = ("rt", lang.ERROR)
        else:
            out = ("val", r)
    except HostErr:
        out = ("host", None)
    except Err as e:
        out = ("rt", e.value)
    except SynErr:
        out = ("syn", None)
    finally:
        machine.stack = []
    return out, list(machine.events), fired


def setup_store(sim, case):
    """materialise the module files of a case in the virtual FS"""
    for vpath, entry in sorted(case.get("files", {}).items()):
        if "latin1" in entry:
            # bytes that are not valid UTF-8 (a file saved in another
            # encoding)
            sim.w.put_file(vpath, entry["latin1"].encode("latin-1"))
        elif "raw" in entry:
            sim.w.put_file(vpath, entry["raw"])
        elif "ir" in entry:
            sim.w.put_file(vpath, lang.render_module(entry["ir"]))
        elif "text" in entry:
            sim.w.put_file(vpath, entry["text"])
    sim.w.put_dir(MOD_HOME)


def make_model_store(case):
    st = case["config"]["store"]
    files = {}
    for vpath, entry in case.get("files", {}).items():
        if "ir" in entry:
            if contains_raw(entry["ir"]):
                files[vpath] = {"raw": True}
            else:
                files[vpath] = {"ir": entry["ir"]}
        elif "latin1" in entry:
            files[vpath] = {"undecodable": True}
        else:
            files[vpath] = {"raw": True}
    return lang.ModelStore(files, MOD_HOME, st.get("paths", []),
                           st.get("path_scope"))


def configure_paths(it, store_cfg):
    from ckl.values import ValueList, ValueString
    if not store_cfg.get("path_scope"):
        return
    lst = ValueList()
    for d in store_cfg.get("paths", []):
        lst.addItem(ValueString(d))
    if store_cfg["path_scope"] == "base":
        it.base_environment.put("checkerlang_module_path", lst)
    else:
        it.environment.put("checkerlang_module_path", lst)


def fingerprint(parts):
    return hashlib.sha256(repr(parts).encode()).hexdigest()[:16]
