import os
import sys


def main(argv):
    os.environ.setdefault("TZ", "UTC")
    os.environ.setdefault("PYTHONDONTWRITEBYTECODE", "1")
    sys.dont_write_bytecode = True
    if len(argv) < 1:
        print("usage: python -m simckl check <P> --tier quick|thorough | "
              "replay <file> | selfcheck | mutants [P...]")
        return 2
    cmd = argv[0]
    from . import driver
    from .sut import HarnessError
    owner = "SIMCKL_SCRATCH" not in os.environ
    driver.scratch_root()
    try:
        if cmd == "check":
            pid = argv[1].upper()
            tier = os.environ.get("VERIF_TIER", "quick")
            if "--tier" in argv:
                tier = argv[argv.index("--tier") + 1]
            return driver.check(pid, tier)
        if cmd == "replay":
            return driver.replay(argv[1])
        if cmd == "digests":
            return driver.digests_main(argv[1].upper(), argv[2], int(argv[3]),
                                       [int(x) for x in argv[4].split(",")])
        if cmd == "selfcheck":
            from . import selfcheck
            return selfcheck.main()
        if cmd == "mutants":
            from . import mutants
            return mutants.main(argv[1:])
        if cmd == "worker":
            mod = driver.prop_module(argv[1].upper())
            return mod.worker_main(argv[2:])
        print("unknown command", cmd)
        return 2
    except HarnessError as e:
        print(f"HARNESS-ERROR {e}")
        return 2
    finally:
        if owner:
            driver.cleanup()


if __name__ == "__main__":
    try:
        rc = main(sys.argv[1:])
    except SystemExit:
        raise
    except BaseException as e:   # noqa: BLE001
        import traceback
        traceback.print_exc()
        print(f"HARNESS-ERROR {type(e).__name__}: {e}")
        rc = 2
    sys.stdout.flush()
    sys.exit(rc)
