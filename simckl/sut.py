"""Locate and import the system under test from the current working tree."""
import os
import sys

SRC = os.path.realpath(os.environ.get("SIMCKL_SRC", "/repo/src"))


class HarnessError(Exception):
    """A failure of the machinery itself (exit 2), never a VIOLATION."""


def load():
    if SRC not in sys.path or sys.path[0] != SRC:
        if SRC in sys.path:
            sys.path.remove(SRC)
        sys.path.insert(0, SRC)
    # pre-import lazily imported stdlib pieces so that they are not first
    # opened while a simulated run is being observed by the audit hook
    import _strptime  # noqa: F401
    import encodings.utf_8  # noqa: F401
    import encodings.latin_1  # noqa: F401
    import encodings.ascii  # noqa: F401
    import ckl
    import ckl.errors
    import ckl.values
    import ckl.nodes
    import ckl.parser
    import ckl.functions
    import ckl.interpreter
    import ckl.repl
    for mod in (ckl.errors, ckl.values, ckl.nodes, ckl.parser,
                ckl.functions, ckl.interpreter):
        f = os.path.realpath(mod.__file__)
        if not f.startswith(SRC + os.sep):
            raise HarnessError(
                f"{mod.__name__} imported from {f}, expected under {SRC}")
    return ckl
