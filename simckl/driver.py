"""Batch driver: seeds -> simulated runs on 16 workers -> verdict + evidence.

Exit codes: 0 property held on everything explored (known findings are
printed as KNOWN-FINDING lines), 1 VIOLATION (with replay file), 2 harness
failure (never reported as a violation, never exit 0).
"""
import concurrent.futures as cf
import faulthandler
import hashlib
import importlib
import json
import multiprocessing as mp
import os
import pickle
import select
import random
import shutil
import subprocess
import sys
import tempfile
import time
import traceback

from .sut import HarnessError, SRC

VERIF = os.path.dirname(os.path.dirname(os.path.abspath(__file__)))
NWORKERS = int(os.environ.get("SIMCKL_WORKERS", "16"))
DEFAULT_SEED = 20261003


def prop_module(pid):
    return importlib.import_module("simckl.props." + pid.lower())


def run_seed(base_seed, pid, tier, k):
    h = hashlib.sha256(f"{base_seed}/{pid}/{tier}/{k}".encode()).digest()
    return int.from_bytes(h[:8], "big")


def scratch_root():
    d = os.environ.get("SIMCKL_SCRATCH")
    if not d:
        base = os.environ.get("SIMCKL_TMP") or tempfile.gettempdir()
        d = os.path.join(base, f"simckl-{os.getpid()}")
        os.environ["SIMCKL_SCRATCH"] = d
    os.makedirs(d, exist_ok=True)
    return d


# ------------------------------------------------------------------------
# worker side

def _worker_init():
    faulthandler.enable()
    os.environ["TZ"] = "UTC"
    time.tzset()
    from . import sut
    sut.load()


def execute_case_here(pid, case):
    """run one case in this process; returns the property module's result.
    A pure function of `case` and the code under test."""
    mod = prop_module(pid)
    root = tempfile.mkdtemp(prefix="r", dir=scratch_root())
    try:
        return mod.run_case(case, root)
    finally:
        shutil.rmtree(root, ignore_errors=True)


def execute_case(pid, case, timeout=600):
    """run one case in a forked child, so that every simulated run starts
    from the same pristine process image: process-global state a run leaves
    behind (class attributes, module globals, caches) can never leak into
    the next run, and a replay in a fresh process sees what the batch saw."""
    if os.environ.get("SIMCKL_NOFORK"):
        return execute_case_here(pid, case)
    return fork_call(execute_case_here, (pid, case), timeout)


def fork_call(fn, args=(), timeout=600):
    """fn(*args) in a forked child; the result comes back pickled"""
    scratch_root()      # fixed before forking, so that children share it
    rfd, wfd = os.pipe()
    sys.stdout.flush()
    sys.stderr.flush()
    child = os.fork()
    if child == 0:
        code = 0
        try:
            os.close(rfd)
            try:
                data = pickle.dumps(("ok", fn(*args)))
            except HarnessError as e:
                data = pickle.dumps(("harness", str(e)))
            except BaseException as e:   # noqa: BLE001
                data = pickle.dumps(
                    ("err", "".join(traceback.format_exception(e))[-3000:]))
            with os.fdopen(wfd, "wb") as f:
                f.write(data)
        except BaseException:   # noqa: BLE001
            code = 3
        finally:
            os._exit(code)
    os.close(wfd)
    chunks = []
    deadline = time.time() + timeout
    with os.fdopen(rfd, "rb") as f:
        while True:
            left = deadline - time.time()
            if left <= 0:
                break
            rl, _, _ = select.select([f], [], [], min(left, 5.0))
            if rl:
                b = f.read1(1 << 20)
                if not b:
                    break
                chunks.append(b)
    try:
        if time.time() >= deadline:
            os.kill(child, 9)
    except ProcessLookupError:
        pass
    os.waitpid(child, 0)
    if not chunks:
        raise RuntimeError("simulated run died or timed out in its child "
                           "process without a result")
    kind, val = pickle.loads(b"".join(chunks))
    if kind == "ok":
        return val
    if kind == "harness":
        raise HarnessError(val)
    raise RuntimeError("run failed in child process:\n" + val)


def _run_chunk(pid, tier, base_seed, ks, keep_cases):
    """worker task: generate and run the cases with indices ks"""
    faulthandler.dump_traceback_later(600, exit=True)
    mod = prop_module(pid)
    out = []
    try:
        for k in ks:
            seed = run_seed(base_seed, pid, tier, k)
            rng = random.Random(seed)
            try:
                case = mod.gen_case(rng, tier, k)
                case["seed"] = seed
                case["k"] = k
                res = execute_case(pid, case)
            except HarnessError:
                raise
            except BaseException as e:   # noqa: BLE001
                out.append({"k": k, "seed": seed, "harness_error":
                            "".join(traceback.format_exception(e))[-3000:]})
                continue
            summ = {"k": k, "seed": seed,
                    "digest": res.get("digest"),
                    "fp": res.get("fp"),
                    "nontrivial": res.get("nontrivial", False),
                    "counters": res.get("counters", {}),
                    "fired": res.get("fired", {}),
                    "configured": res.get("configured", {}),
                    "probes": res.get("probes", {}),
                    "steps": res.get("steps", 0),
                    "nops": res.get("nops", 0),
                    "evals": res.get("evals", 1),
                    "faulty": res.get("faulty", False),
                    "violations": res.get("violations", []),
                    "extra_fps": res.get("extra_fps", [])}
            if res.get("violations") or k in keep_cases:
                summ["case"] = case
                summ["observed"] = res.get("observed")
            out.append(summ)
    finally:
        faulthandler.cancel_dump_traceback_later()
    return out


# ------------------------------------------------------------------------
# known findings

def load_known():
    p = os.path.join(VERIF, "known_findings.json")
    if not os.path.exists(p):
        return []
    with open(p) as f:
        return json.load(f).get("entries", [])


def known_match(pid, sig, known):
    for e in known:
        if e.get("kind") != "finding" or e.get("property") != pid:
            continue
        if e.get("signature") == sig:
            return e
    return None


# ------------------------------------------------------------------------
# minimisation (delta debugging over ops, faults, files)

def _has_sig(pid, case, sig):
    try:
        res = execute_case(pid, case)
    except HarnessError:
        raise
    except BaseException:   # noqa: BLE001
        return False
    return any(v["sig"] == sig for v in res.get("violations", []))


def _ddmin(items, test):
    """classic ddmin on a list; test(sublist)->bool (True = still fails)"""
    n = 2
    while len(items) >= 2:
        chunk = max(1, len(items) // n)
        subsets = [items[i:i + chunk] for i in range(0, len(items), chunk)]
        reduced = False
        for i in range(len(subsets)):
            comp = [x for j, s in enumerate(subsets) if j != i for x in s]
            if comp and test(comp):
                items = comp
                n = max(n - 1, 2)
                reduced = True
                break
        if not reduced:
            if chunk == 1:
                break
            n = min(len(items), n * 2)
    if len(items) == 1 and test([]):
        return []
    return items


def minimise(pid, case, sig, budget_s=60):
    t_end = time.time() + budget_s
    mod = prop_module(pid)
    case = json.loads(json.dumps(case))

    def ok(c):
        if time.time() > t_end:
            return False
        return _has_sig(pid, c, sig)

    if not ok(case):
        return case, False       # not reproducible in this process
    custom = getattr(mod, "minimise_case", None)
    if custom is not None:
        try:
            case = custom(case, ok)
        except HarnessError:
            raise
    # 1. drop whole operations
    if isinstance(case.get("ops"), list):
        def t_ops(sub):
            c = dict(case)
            c["ops"] = sub
            return ok(c)
        case["ops"] = _ddmin(case["ops"], t_ops)
        # 1b. drop statements inside the remaining commands
        for i, op in enumerate(case["ops"]):
            if isinstance(op, dict) and isinstance(op.get("stmts"), list) \
                    and len(op["stmts"]) > 1:
                def t_st(sub, i=i):
                    c = json.loads(json.dumps(case))
                    c["ops"][i]["stmts"] = sub
                    return ok(c)
                case["ops"][i]["stmts"] = _ddmin(op["stmts"], t_st)
        # 2. drop faults one at a time
        for i, op in enumerate(case["ops"]):
            fl = op.get("faults") if isinstance(op, dict) else None
            if not fl:
                continue
            for j in range(len(fl) - 1, -1, -1):
                cand = json.loads(json.dumps(case))
                del cand["ops"][i]["faults"][j]
                if ok(cand):
                    case = cand
    # 3. drop files nobody needs
    if isinstance(case.get("files"), dict):
        for name in sorted(case["files"], reverse=True):
            cand = json.loads(json.dumps(case))
            del cand["files"][name]
            if ok(cand):
                case = cand
    return case, True


# ------------------------------------------------------------------------
# replay

def write_replay(pid, case, violation, tier, minimised):
    d = os.environ.get("SIMCKL_REPLAY_DIR") or os.path.join(VERIF, "replays")
    os.makedirs(d, exist_ok=True)
    sigh = hashlib.sha256(violation["sig"].encode()).hexdigest()[:8]
    path = os.path.join(d, f"{pid}-{case.get('seed', 0)}-{sigh}.json")
    with open(path, "w") as f:
        json.dump({"property": pid, "tier": tier,
                   "seed": case.get("seed"), "minimised": minimised,
                   "violation": violation, "case": case}, f, indent=1,
                  sort_keys=True)
    return path


def replay(path):
    """re-execute a replay file; exit 1 + VIOLATION line when the recorded
    violation reproduces, 0 when it does not."""
    _worker_init()
    with open(path) as f:
        rec = json.load(f)
    pid = rec["property"]
    res = execute_case_here(pid, rec["case"])
    want = rec["violation"]["sig"]
    got = [v for v in res.get("violations", []) if v["sig"] == want]
    other = [v for v in res.get("violations", []) if v["sig"] != want]
    for v in got + other:
        print(f"  clause={v['clause']} sig={v['sig']}\n    {v['detail']}")
    if got:
        print(f"VIOLATION property={pid} replay={path}")
        return 1
    print(f"replay of {path}: recorded violation did not reproduce"
          + (f" ({len(other)} other violation(s) seen)" if other else ""))
    return 1 if other else 0


# ------------------------------------------------------------------------
# determinism self-test

def _digests_fresh_process(pid, tier, base_seed, ks, hashseed):
    env = dict(os.environ)
    env["PYTHONHASHSEED"] = str(hashseed)
    env["PYTHONPATH"] = VERIF
    env["SIMCKL_WORKERS"] = "1"
    cmd = [sys.executable, "-m", "simckl", "digests", pid, tier,
           str(base_seed), ",".join(str(k) for k in ks)]
    p = subprocess.run(cmd, env=env, cwd=VERIF, capture_output=True,
                       text=True, timeout=900)
    if p.returncode != 0:
        raise HarnessError("digest subprocess failed: " + p.stderr[-2000:])
    return json.loads(p.stdout.strip().splitlines()[-1])


def digests_main(pid, tier, base_seed, ks):
    _worker_init()
    rows = _run_chunk(pid, tier, base_seed, ks, ())
    print(json.dumps({str(r["k"]): r.get("digest") for r in rows}))
    return 0


# ------------------------------------------------------------------------
# the check

def check(pid, tier):
    t0 = time.time()
    base_seed = int(os.environ.get("VERIF_SEED", DEFAULT_SEED))
    mod = prop_module(pid)
    cfg = mod.TIERS[tier]
    print(f"simckl check {pid} tier={tier} VERIF_SEED={base_seed} src={SRC}")
    sys.stdout.flush()
    custom = getattr(mod, "custom_check", None)
    if custom is not None:
        return custom(tier, base_seed, t0)
    return generic_check(pid, tier, base_seed, t0, mod, cfg)


def generic_check(pid, tier, base_seed, t0, mod, cfg):
    nruns = int(os.environ.get("SIMCKL_RUNS", cfg["runs"]))
    wall_cap = float(os.environ.get("SIMCKL_WALL", cfg["wall_s"]))
    chunk = cfg.get("chunk", 25)
    nsamples = 3
    keep = set(range(nsamples))
    ctx = mp.get_context("fork")
    _worker_init()     # import the SUT once, children inherit it
    rows = []
    harness_errors = []
    stopped_early = False
    with cf.ProcessPoolExecutor(NWORKERS, mp_context=ctx,
                                initializer=_worker_init) as ex:
        futs = []
        for lo in range(0, nruns, chunk):
            ks = list(range(lo, min(nruns, lo + chunk)))
            futs.append(ex.submit(_run_chunk, pid, tier, base_seed, ks,
                                  keep))
        # determinism: re-run a sample in (other) workers
        det_ks = list(range(0, nruns, max(1, nruns // cfg.get("det", 40))))
        det_ks = det_ks[:cfg.get("det", 40)]
        det_fut = ex.submit(_run_chunk, pid, tier, base_seed, det_ks, ())
        try:
            for f in futs:
                left = wall_cap - (time.time() - t0)
                if left <= 0:
                    stopped_early = True
                    f.cancel()
                    continue
                try:
                    rows.extend(f.result(timeout=max(1.0, left)))
                except cf.TimeoutError:
                    stopped_early = True
                    f.cancel()
            det_rows = det_fut.result(timeout=600)
        except cf.process.BrokenProcessPool as e:
            print(f"HARNESS-ERROR worker died: {e}")
            return 2
        except HarnessError as e:
            print(f"HARNESS-ERROR {e}")
            return 2
        if stopped_early:
            for f in futs:
                f.cancel()
            ex.shutdown(wait=False, cancel_futures=True)
    rows.sort(key=lambda r: r["k"])
    for r in rows:
        if "harness_error" in r:
            harness_errors.append(r)
    if harness_errors:
        r = harness_errors[0]
        print(f"HARNESS-ERROR in run k={r['k']} seed={r['seed']}:\n"
              + r["harness_error"])
        return 2
    if not rows:
        print("HARNESS-ERROR no run completed")
        return 2

    # aggregate
    agg = aggregate(rows)
    if agg["steps"] == 0 and getattr(mod, "NEEDS_STEPS", True):
        print("HARNESS-ERROR step clock saw no evaluate/execute entry "
              "(renamed?) -- failing closed")
        return 2

    # violations
    known = load_known()
    by_sig = {}
    for r in rows:
        for v in r["violations"]:
            by_sig.setdefault(v["sig"], []).append((r, v))
    exit_code = 0
    reported = []
    nviol = 0
    for sig in sorted(by_sig):
        lst = by_sig[sig]
        kf = known_match(pid, sig, known)
        if kf is not None:
            print(f"KNOWN-FINDING: property={pid} {kf['what']} "
                  f"[{sig}] ({len(lst)} runs)")
            reported.append({"sig": sig, "known": True, "runs": len(lst)})
            continue
        nviol += 1
        if nviol > 6:
            continue
        # smallest failing case first
        lst.sort(key=lambda rv: (rv[0]["nops"], rv[0]["k"]))
        r, v = lst[0]
        case, repro = minimise(pid, r["case"], sig,
                               budget_s=cfg.get("min_s", 45))
        if repro:
            res2 = execute_case(pid, case)
            v2 = [x for x in res2["violations"] if x["sig"] == sig]
            v = v2[0] if v2 else v
        path = write_replay(pid, case, v, tier, repro)
        print(f"  clause={v['clause']} sig={sig} runs={len(lst)} "
              f"first_seed={r['seed']}\n    {v['detail']}")
        print(f"VIOLATION property={pid} replay={path}")
        reported.append({"sig": sig, "known": False, "runs": len(lst),
                         "replay": path, "clause": v["clause"]})
        exit_code = 1

    # determinism verdict
    bydig = {r["k"]: r["digest"] for r in rows}
    det_checked = 0
    det_error = None
    for r in det_rows:
        if "harness_error" in r:
            det_error = "(determinism rerun)\n" + r["harness_error"]
            break
        if r["k"] in bydig:
            det_checked += 1
            if bydig[r["k"]] != r["digest"]:
                det_error = (f"nondeterministic run k={r['k']} "
                             f"seed={r['seed']}: {bydig[r['k']]} vs "
                             f"{r['digest']}")
                break
    fresh_ks = [k for k in det_ks if k in bydig][:cfg.get("det_fresh", 12)]
    fresh_checked = 0
    if fresh_ks and det_error is None:
        try:
            fd = _digests_fresh_process(pid, tier, base_seed, fresh_ks,
                                        hashseed=(base_seed % 4000) + 7)
        except HarnessError as e:
            det_error = str(e)
            fd = {}
            fresh_ks = []
        for k in fresh_ks:
            fresh_checked += 1
            if fd.get(str(k)) != bydig[k]:
                det_error = (f"run k={k} differs in a fresh interpreter "
                             f"under another PYTHONHASHSEED: {bydig[k]} vs "
                             f"{fd.get(str(k))}")
                break

    if det_error is not None:
        if exit_code == 0:
            print("HARNESS-ERROR " + det_error)
            return 2
        print("note: determinism self-test failed as well (" + det_error
              + "); the violation above is reported regardless")

    missing = [p for p in getattr(mod, "REQUIRED_PROBES", {}).get(tier, [])
               if not agg["probes"].get(p)]
    if missing and not stopped_early and exit_code == 0 and \
            "SIMCKL_RUNS" not in os.environ:
        print(f"HARNESS-ERROR reach probes never hit: {missing}")
        return 2

    wall = time.time() - t0
    write_evidence(pid, tier, base_seed, mod, rows, agg, wall, nviol,
                   {"determinism": {
                       "same_seed_rerun_in_other_worker": det_checked,
                       "fresh_interpreter_other_hashseed": fresh_checked,
                       "mismatches": 0},
                    "stopped_early_by_wall_cap": stopped_early,
                    "runs_requested": nruns,
                    "reported": reported})
    print(f"{pid} {tier}: runs={len(rows)} evaluations={agg['evals']} "
          f"distinct_nontrivial="
          f"{agg['distinct_nontrivial']} violations={nviol} "
          f"faults_fired={sum(agg['fired'].values())} wall={wall:.1f}s "
          f"exit={exit_code}")
    return exit_code


def aggregate(rows):
    fired, configured, probes, counters = {}, {}, {}, {}
    fps = set()
    steps = 0
    nops = 0
    faulty = 0
    evals = 0
    for r in rows:
        evals += r.get("evals", 1)
        for k, v in r.get("fired", {}).items():
            fired[k] = fired.get(k, 0) + v
        for k, v in r.get("configured", {}).items():
            configured[k] = configured.get(k, 0) + v
        for k, v in r.get("probes", {}).items():
            probes[k] = probes.get(k, 0) + int(v)
        for k, v in r.get("counters", {}).items():
            counters[k] = counters.get(k, 0) + v
        steps += r.get("steps", 0)
        nops += r.get("nops", 0)
        faulty += 1 if r.get("faulty") else 0
        if r.get("nontrivial") and r.get("fp"):
            fps.add(r["fp"])
        for fp in r.get("extra_fps", []):
            fps.add(fp)
    return {"fired": dict(sorted(fired.items())),
            "configured": dict(sorted(configured.items())),
            "probes": dict(sorted(probes.items())),
            "counters": dict(sorted(counters.items())),
            "steps": steps, "nops": nops, "faulty_runs": faulty,
            "evals": evals,
            "fault_free_runs": len(rows) - faulty,
            "distinct_nontrivial": len(fps)}


def write_evidence(pid, tier, base_seed, mod, rows, agg, wall, nviol, extra):
    if os.environ.get("SIMCKL_NO_EVIDENCE"):
        return
    samples = []
    for r in rows:
        if "case" in r and len(samples) < 3:
            samples.append({"k": r["k"], "seed": r["seed"],
                            "case": _trim(r["case"]),
                            "observed": r.get("observed"),
                            "violations": r["violations"]})
    ev = {
        "property_id": pid,
        "tier": tier,
        "seed": base_seed,
        "level": "exploration",
        "coverage": {
            "evaluations": agg["evals"],
            "distinct_nontrivial": agg["distinct_nontrivial"],
            "rule": mod.RULE,
            "samples": samples,
            "simulated_runs": len(rows),
            "runs_per_hour": int(len(rows) / max(wall, 1e-6) * 3600),
            "simulated_steps": agg["steps"],
            "simulated_time_s": round(agg["steps"] * 0.001, 3),
            "operations": agg["nops"],
            "fault_free_runs": agg["fault_free_runs"],
            "faulty_runs": agg["faulty_runs"],
            "faults_configured": agg["configured"],
            "faults_fired": agg["fired"],
            "reach_probes": agg["probes"],
            "counters": agg["counters"],
            "components_real": mod.REAL,
            "components_stubbed": mod.STUBBED,
        },
        "assumptions": mod.ASSUMPTIONS,
        "wall_s": round(wall, 2),
        "violations": nviol,
    }
    ev["coverage"].update(extra)
    d = os.path.join(VERIF, "evidence")
    os.makedirs(d, exist_ok=True)
    tmp = os.path.join(d, f".{pid}.json.tmp")
    with open(tmp, "w") as f:
        json.dump(ev, f, indent=1, sort_keys=True, default=str)
    os.replace(tmp, os.path.join(d, f"{pid}.json"))


def _trim(case, keep=14):
    """a sample case for the evidence file: long operation lists and file
    sets are cut (the totals are kept) so that the file stays readable"""
    c = json.loads(json.dumps(case))
    for key in ("ops", "stmts"):
        if isinstance(c.get(key), list) and len(c[key]) > keep:
            c[key + "_total"] = len(c[key])
            c[key] = c[key][:keep]
    if isinstance(c.get("files"), dict) and len(c["files"]) > 6:
        c["files_total"] = len(c["files"])
        c["files"] = {k: c["files"][k] for k in sorted(c["files"])[:6]}
    return c


def cleanup():
    d = os.environ.get("SIMCKL_SCRATCH")
    if d:
        shutil.rmtree(d, ignore_errors=True)
