"""Execution + oracle for histories of session commands (C10, C11):
real Interpreter instances in the simulated world, side by side with the
reference model, compared command by command."""
from . import lang
from .lang import Unspec
from .sut import HarnessError
from .session import (Sim, configure_paths, fingerprint, make_model_store,
                      model_run, setup_store)

# ------------------------------------------------------------------------
# execution + oracle

def run_history(case, root, ID, ls_after_each=False):
    cfg = case["config"]
    sim = Sim(root, cfg.get("prng", 0.5))
    res = {"violations": [], "probes": {}, "counters": {}, "configured": {}}
    viol = res["violations"]
    probes = res["probes"]
    observed = []

    def V(clause, sig, detail):
        if len(viol) < 5:
            viol.append({"clause": clause, "sig": f"{ID}:{sig}",
                         "detail": detail})

    try:
        setup_store(sim, case)
        mstore = make_model_store(case)
        machines = {}
        baseline = {}
        hosts = {}
        for ic in cfg["instances"]:
            if cfg.get("host") in ("repl", "run"):
                from .replhost import ReplHost, RunHost
                st = cfg["store"]
                mp = st["paths"][0] if st.get("path_scope") == "session" \
                    and st.get("paths") else None
                h = (RunHost if cfg["host"] == "run" else ReplHost)(
                    sim, ic["name"], ic["secure"], ic["legacy"], mp)
                hosts[ic["name"]] = h
                sim.w.sut_running = True
                try:
                    ok = h.start()
                finally:
                    sim.w.sut_running = False
                if not ok:
                    raise HarnessError(f"REPL did not start: {h.exc!r}")
                probes[cfg["host"] + "_host"] = 1
            else:
                it = sim.new_interpreter(ic["name"], ic["secure"],
                                         ic["legacy"])
                configure_paths(it, cfg["store"])
            machines[ic["name"]] = lang.Machine(mstore, ic["name"])
            machines[ic["name"]].nonsecure = not ic["secure"]

        def call(inst, src, fname, senv=None):
            """one command through the host of that instance"""
            if inst not in hosts:
                return sim.inst[inst].interpret(src, fname, senv)
            h = hosts[inst]
            calls, printed = h.send(src)
            last_printed[inst] = printed
            tries = 0
            while h.prompts and h.prompts[-1].startswith("+"):
                # the REPL wants a continuation line although the command
                # was complete: first offer an empty statement (a correct
                # REPL never gets here with the generated commands), then
                # force the end of the statement
                tries += 1
                c2, p2 = h.send(";" if tries <= 2 else ")")
                calls, printed = calls + c2, printed + p2
                last_printed[inst] = printed
                probes["repl_continuation_prompt"] = 1
                if tries > 4:
                    break
            if not calls:
                from ckl.errors import CklSyntaxError
                raise CklSyntaxError("(rejected by the REPL's parser: "
                                     + " / ".join(printed)[:100] + ")")
            kind, val = calls[-1]
            if kind == "exc":
                raise val
            return val
        last_printed = {}
        if len(cfg["instances"]) > 1:
            probes["two_instances"] = 1
        names = [ic["name"] for ic in cfg["instances"]]
        for nm in names:
            out = sim.run(-1, nm, [], lambda nm=nm: call(nm, "ls()",
                                                         "probe"))
            baseline[nm] = set(parse_ls(out["val"]))
        envs_m = {}
        envs_s = {}
        env_owner = {}
        persistent = []
        prev = None
        failed_before = False
        kinds_seq = []
        inconclusive = False
        nchecked = 0
        failed_req = set()      # (inst, module) whose load failed earlier
        usage = {"forms": {}, "aliases": {}}
        faulted_req = set()

        def check_names(idx, inst, mscope, senv):
            """ls() of the scope against the model's names"""
            out = sim.run(idx, inst, [], lambda: call(inst, "ls()", "probe",
                                                      senv))
            if out["kind"] != "val":
                V("session-usable", "ls-failed",
                  f"op#{idx} ls() on {inst} failed: {out}")
                return False
            got = set(parse_ls(out["val"])) - baseline[inst]
            want = mscope.names()
            ign = set()
            s2 = mscope
            while s2 is not None:
                ign |= s2.unspec
                s2 = s2.parent
            got = {x for x in got if not x.startswith("k_")} - ign
            # (names the base environment defines anyway cannot be told
            # apart in ls(): they are left out on both sides)
            want = {x for x in want if not x.startswith("k_")} - ign \
                - baseline[inst]
            want.discard("checkerlang_module_path")
            got.discard("checkerlang_module_path")
            observed.append({"op": idx, "ls_extra": sorted(got - want),
                             "ls_missing": sorted(want - got)})
            probes["names_checked"] = probes.get("names_checked", 0) + 1
            if got != want:
                extra = sorted(got - want)
                V("names", "ls-diff:" + (
                    ("private" if any(x.startswith("_") for x in extra)
                     else "extra") if extra else "missing"),
                  f"op#{idx} names visible in {inst}: unexpected "
                  f"{extra}, missing {sorted(want - got)}")
                return False
            return True

        for idx, op in enumerate(case["ops"]):
            kind = op["kind"]
            if kind == "heal":
                sim.w.heal()
                persistent.clear()
                kinds_seq.append("heal")
                continue
            if kind == "clock":
                sim.w.clock_offset += op["jump"]
                kinds_seq.append("clock")
                continue
            if kind == "putfile":
                # the module store changes while the session runs
                sim.w.put_file(op["path"], lang.render_module(op["ir"]))
                mstore.files[op["path"]] = {"ir": op["ir"]}
                probes["store_changed_mid_session"] = 1
                kinds_seq.append("putfile")
                prev = None       # the cause of a failure may be gone
                continue
            if kind == "rmfile":
                import os as _os
                try:
                    _os.remove(sim.w.real(op["path"]))
                except OSError:
                    pass
                mstore.files.pop(op["path"], None)
                probes["store_changed_mid_session"] = 1
                kinds_seq.append("rmfile")
                prev = None       # a repeated command may fail differently
                continue
            inst = op.get("inst", "A")
            if inst not in machines:
                continue
            m = machines[inst]
            envname = op.get("env")
            if envname is None:
                mscope = m.session
                senv = None
            else:
                key = envname if cfg.get("share_env") else \
                    inst + ":" + envname
                if key not in envs_m:
                    from ckl.functions import Environment
                    envs_m[key] = lang.Scope(m.session, "scratch")
                    envs_s[key] = Environment()
                    if cfg.get("deep_env"):
                        # the caller's environment is itself a child of
                        # another (fresh) environment
                        envs_s[key] = envs_s[key].newEnv().newEnv()
                        probes["deep_caller_env"] = 1
                    env_owner[key] = inst
                    probes["scratch_env"] = 1
                mscope = envs_m[key]
                senv = envs_s[key]
                if env_owner[key] != inst:
                    # an environment belongs to the interpreter it was
                    # first used with; handing it to another interpreter
                    # must not expose anything of the first one: the call
                    # is refused (runtime error) and nothing happens
                    probes["env_moved_between_instances"] = 1
                    if kind != "cmd":
                        continue
                    ev0f = {nm: len(sim.outs[nm].chunks) for nm in names}
                    src = lang.render_command(op["stmts"])
                    out = sim.run(idx, inst, [], lambda: call(
                        inst, src, "cmd", senv))
                    observed.append({"op": idx, "inst": inst, "src": src,
                                     "foreign_env": True,
                                     "sut": {k2: out.get(k2) for k2 in
                                             ("kind", "val", "msg")}})
                    leaked = any(len(sim.outs[nm].chunks) != ev0f[nm]
                                 for nm in names)
                    if out["kind"] not in ("rt", "syn") or leaked:
                        V("isolation", "foreign-environment-accepted",
                          f"op#{idx} `{src}` on {inst} in an environment "
                          f"that belongs to {env_owner[key]}: expected a "
                          f"refusal without effects, got {out['kind']} "
                          f"{out.get('val')} (output written: {leaked})")
                        break
                    kinds_seq.append("foreign-env")
                    nchecked += 1
                    continue
            if kind == "lsmod":
                nm = op["name"]
                try:
                    sc = mscope.lookup(nm)
                except Unspec:
                    sc = None
                if sc is None or not isinstance(sc.vars.get(nm),
                                                lang.ModObj):
                    continue
                mo = sc.vars[nm]
                out = sim.run(idx, inst, [], lambda: call(
                    inst, f"ls({nm})", "probe", senv))
                if out["kind"] != "val":
                    V("session-usable", "lsmod-failed",
                      f"op#{idx} ls({nm}) failed: {out}")
                    break
                got = set(parse_ls(out["val"]))
                must = {k2 for k2, v2 in mo.members.items()
                        if v2 is not lang.UNSPEC}
                may = {k2 for k2, v2 in mo.members.items()
                       if v2 is lang.UNSPEC}
                probes["module_members_checked"] = probes.get(
                    "module_members_checked", 0) + 1
                observed.append({"op": idx, "lsmod": nm,
                                 "extra": sorted(got - must - may),
                                 "missing": sorted(must - got)})
                if must - got or got - must - may:
                    extra = sorted(got - must - may)
                    V("module-object", "module-members:" + (
                        ("private" if any(x.startswith("_") for x in extra)
                         else "extra") if extra else "missing"),
                      f"op#{idx} module object {nm} (module {mo.mod}) of "
                      f"{inst} exposes unexpected {extra}, lacks "
                      f"{sorted(must - got)}")
                    break
                kinds_seq.append("lsmod")
                nchecked += 1
                continue
            if kind == "ls":
                if not check_names(idx, inst, mscope, senv):
                    break
                kinds_seq.append("ls")
                nchecked += 1
                if failed_before:
                    probes["failed_then_later_checked"] = 1
                continue
            # a command
            stmts = op["stmts"]
            faults = op.get("faults", [])
            for f in faults:
                key = f["site"] + ":" + f.get("err", "EIO")
                res["configured"][key] = res["configured"].get(key, 0) + 1
                if f.get("persist"):
                    persistent.append(f)
            src = lang.render_command(stmts)
            ev0 = {nm: len(sim.outs[nm].chunks) for nm in names}
            try:
                mout, mevents, mfired = model_run(m, stmts, mscope, faults,
                                                  persistent)
            except Unspec as e:
                probes["unspec_abort"] = 1
                observed.append({"op": idx, "unspec": str(e)})
                break
            out = sim.run(idx, inst, faults,
                          lambda: call(inst, src, "cmd", senv))
            got_events = sim.outs[inst].chunks[ev0[inst]:]
            rec = {"op": idx, "inst": inst, "src": src,
                   "model": [mout[0], lang.vstr(mout[1])
                             if mout[0] in ("val", "rt") else None],
                   "sut": {k: out[k] for k in ("kind", "val", "cls", "msg")
                           if k in out},
                   "events": got_events, "fired": out["fired"]}
            observed.append(rec)
            reqmods = [s[2].get("id", s[2].get("str"))
                       for s in lang.walk_stmts(stmts) if s[0] == "req"]
            kinds_seq.append(cmd_kind(stmts, mout[0], faults))
            # the mirror and the world must agree on which faults fired;
            # otherwise the run says nothing (never a violation)
            sfired = sorted((f["site"], f.get("err", "EIO"))
                            for f in out["fired"])
            if sorted(mfired) != sfired:
                probes["fault_mirror_mismatch"] = 1
                rec["mirror_mismatch"] = [sorted(mfired), sfired]
                inconclusive = True
                break
            if out.get("cls") == "ReplDied":
                hk = cfg.get("host", "repl")
                V("host-survives", hk + "-died",
                  f"op#{idx} `{src}`: the {hk} host ended: {out['msg']} "
                  f"(the model expected {rec['model']})")
                break
            if inst in hosts:
                pr = last_printed.get(inst, [])
                rec["printed"] = pr[:3]
                if out["kind"] == "val" and out["val"] != "NULL" and \
                        pr[:1] != [out["val"]]:
                    V("host-prints", cfg["host"] + "-print",
                      f"op#{idx} `{src}`: interpret returned {out['val']} "
                      f"but the REPL printed {pr}")
                    break
                if out["kind"] in ("rt", "syn") and not pr:
                    V("host-prints", cfg["host"] + "-silent-error",
                      f"op#{idx} `{src}` failed ({out}) but the REPL "
                      f"printed nothing")
                    break
                pk = cfg["host"] + "_commands"
                probes[pk] = probes.get(pk, 0) + 1
            if out["kind"] == "budget":
                V("terminates", "step-budget",
                  f"op#{idx} `{src}` exceeded the step budget")
                break
            for nm in names:
                if nm != inst and len(sim.outs[nm].chunks) != ev0[nm]:
                    V("isolation", "foreign-stdout",
                      f"op#{idx} on {inst} wrote to stdout of {nm}")
            ok = True
            if mout[0] == "host":
                if out["kind"] == "val":
                    ok = False
                    V("outcome", "fault-ignored",
                      f"op#{idx} `{src}`: module read was faulted "
                      f"({faults}) yet the call returned {out['val']}")
            elif mout[0] != out["kind"]:
                ok = False
                sig = f"outcome:{mout[0]}->{out['kind']}"
                if prev_failed_same_module(failed_req, inst, reqmods) \
                        and mout[0] != out["kind"]:
                    sig = "residue-after-failed-require:" + sig
                V("outcome", sig,
                  f"op#{idx} `{src}` on {inst}: expected {rec['model']} "
                  f"got {rec['sut']} (events {got_events})")
            elif mout[0] == "rt" and lang.vstr(mout[1]) != out["val"]:
                ok = False
                V("error-value", "error-value",
                  f"op#{idx} `{src}`: expected error value "
                  f"{lang.vstr(mout[1])} got {out['val']} ({out.get('msg')})")
            elif mout[0] == "val" and comparable(stmts, mout[1]) and \
                    lang.vstr(mout[1]) != out["val"]:
                ok = False
                V("value", "value",
                  f"op#{idx} `{src}` on {inst}: expected "
                  f"{lang.vstr(mout[1])} got {out['val']}")
            if ok and [t for _, t in mevents] != got_events:
                ok = False
                sig = "events"
                if any(t.startswith("LOAD") for t in got_events) or any(
                        t.startswith("LOAD") for _, t in mevents):
                    sig = "load-ledger"
                V("events", sig,
                  f"op#{idx} `{src}` on {inst}: expected output "
                  f"{[t for _, t in mevents]} got {got_events}")
            if not ok:
                break
            nchecked += 1
            for k2, v2 in m.stats.items():
                probes[k2] = probes.get(k2, 0) + v2
            m.stats = {}
            try:
                note_usage(probes, usage, inst, stmts, mscope)
            except Unspec:
                pass
            if ls_after_each and not check_names(idx, inst, mscope, senv):
                break
            # repeat: same failing command, same cause -> same error
            if op.get("repeat") and prev is not None and \
                    prev["stmts"] == stmts and prev["inst"] == inst and \
                    prev["env"] == envname and \
                    prev["faults_sig"] == fault_sig(faults, persistent) and \
                    prev["mout"][0] != "val" and \
                    prev["mout"][0] == mout[0] and \
                    lang.vstr(prev["mout"][1]) == lang.vstr(mout[1]):
                probes["repeat_checked"] = 1
                a, b = prev["out"], out
                same = all(a.get(k) == b.get(k)
                           for k in ("kind", "val", "msg", "pos", "cls",
                                     "trace"))
                if not same:
                    V("repeat", "repeat-differs",
                      f"op#{idx} repeating `{src}` gave "
                      f"{ {k: b.get(k) for k in ('kind','val','msg','pos','trace')} }"
                      f" but the first time "
                      f"{ {k: a.get(k) for k in ('kind','val','msg','pos','trace')} }")
                    break
            prev = {"stmts": stmts, "inst": inst, "env": envname,
                    "faults_sig": fault_sig(faults, persistent),
                    "mout": mout, "out": out}
            # probes
            if failed_before:
                probes["failed_then_later_checked"] = 1
            if mout[0] != "val":
                failed_before = True
            for mid in reqmods:
                if (inst, mid) in failed_req:
                    probes["require_after_failed_require"] = 1
                if (inst, mid) in faulted_req and not out["fired"]:
                    probes["faulted_require_then_retry"] = 1
                if mid in m.loaded and mout[0] == "val" and not any(
                        t == f"LOAD {mid}|" for _, t in mevents):
                    probes["cached_module_path"] = 1
                if mout[0] != "val":
                    failed_req.add((inst, mid))
                    if out["fired"]:
                        faulted_req.add((inst, mid))
        res["nops"] = len(case["ops"])
        res["checked"] = nchecked
        res["counters"] = {"ops_checked": nchecked,
                           "inconclusive_runs": 1 if inconclusive else 0}
        res["fp"] = fingerprint((kinds_seq,
                                 [o.get("inst") for o in case["ops"]]))
        res["nontrivial"] = bool(probes.get("failed_then_later_checked"))
        if sim.w.bypass:
            res["counters"]["bypass_events"] = len(sim.w.bypass)
    finally:
        res["digest"] = sim.w.digest()
        res["fired"] = dict(sim.w.fired)
        res["steps"] = sim.clock.total
        res["faulty"] = bool(sim.w.fired)
        res["observed"] = observed[-12:]
        try:
            for h in locals().get("hosts", {}).values():
                h.stop()
        finally:
            sim.close()
    return res


def prev_failed_same_module(failed_req, inst, reqmods):
    return any((inst, mid) in failed_req for mid in reqmods)


def fault_sig(faults, persistent):
    return repr(sorted(repr(sorted(f.items())) for f in
                       list(faults) + list(persistent)))


def cmd_kind(stmts, outcome, faults):
    ks = []
    for s in stmts:
        if s[0] == "req":
            ks.append("req-" + s[1])
        elif s[0] in ("err", "undef", "div0", "idx", "badcall", "raw",
                      "for", "deffn"):
            ks.append(s[0])
        elif s[0] == "expr":
            ks.append("x-" + (s[1][0] if isinstance(s[1], list) else "lit"))
        else:
            ks.append("st")
    return ("+".join(ks), outcome,
            tuple(sorted(f["site"] + f.get("err", "") for f in faults)))


def comparable(stmts, value):
    """the value of a command is compared when it ends in an expression
    statement yielding plain data"""
    if not stmts or stmts[-1][0] != "expr":
        return False
    return lang.kind_of(value) in ("num", "string", "list", "boolean", "null")


def parse_ls(text):
    """['a', 'b'] -> names (ls() renders a list of strings)"""
    t = text.strip()
    if not (t.startswith("[") and t.endswith("]")):
        return []
    inner = t[1:-1].strip()
    if not inner:
        return []
    return [x.strip().strip("'") for x in inner.split(",")]


def note_usage(probes, usage, inst, stmts, scope):
    """reach probes derived from what a checked command actually did"""
    def norm(spec):
        mid = spec.get("id", spec.get("str", ""))
        if "id" in spec:
            try:
                s2 = scope.lookup(mid)
            except Unspec:
                s2 = None
            if s2 is not None and isinstance(s2.vars.get(mid), str):
                mid = s2.vars[mid]
        mid = mid.split("/")[-1]
        return mid[:-4] if mid.endswith(".ckl") else mid

    def walk(sts, infn):
        for s in sts:
            if s[0] == "req":
                key = (inst, norm(s[2]))
                usage["forms"].setdefault(key, set()).add(
                    s[1] + (":fn" if infn else ""))
                if len(usage["forms"][key]) >= 2:
                    probes["same_module_two_forms"] = 1
            elif s[0] == "deffn":
                walk(s[3], True)
            elif s[0] in ("for", "forin", "while"):
                walk(s[3], infn)
            if s[0] == "expr" and isinstance(s[1], list):
                e = s[1]
                if e[0] == "mcall":
                    if e[2].startswith("probe"):
                        probes["importer_probe_called"] = 1
                    if e[2].startswith(("bump", "peek")):
                        try:
                            s2 = scope.lookup(e[1])
                        except Unspec:
                            s2 = None
                        if s2 is not None and isinstance(
                                s2.vars.get(e[1]), lang.ModObj):
                            key = (inst, s2.vars[e[1]].mod)
                            usage["aliases"].setdefault(key, set()).add(e[1])
                elif e[0] == "call":
                    try:
                        s2 = scope.lookup(e[1])
                    except Unspec:
                        s2 = None
                    if s2 is not None and isinstance(s2.vars.get(e[1]),
                                                     lang.Fn):
                        fn = s2.vars[e[1]]
                        lab = fn.scope.label
                        if lab.startswith("mod:") and (
                                "bump" in fn.name or "peek" in fn.name):
                            key = (inst, lab[4:])
                            usage["aliases"].setdefault(key, set()).add(
                                e[1])
    walk(stmts, False)
    for s in lang.walk_stmts(stmts):
        if s[0] == "expr" and isinstance(s[1], list) and \
                s[1][0] in ("mcall", "call"):
            fnm = s[1][2] if s[1][0] == "mcall" else s[1][1]
            if isinstance(fnm, str) and "inc" in fnm:
                usage.setdefault("inc", set()).add(inst)
        if s[0] == "req" and inst in usage.get("inc", ()):
            probes["public_data_reassigned_then_required"] = 1
    if any(len(v) >= 2 for v in usage["aliases"].values()):
        probes["shared_state_two_aliases"] = 1
