"""Install / remove the simulated world under the interpreter.

No change to /repo is needed: the interpreter reaches the outside through
module-level names (``open``, ``os``, ``shutil``, ``subprocess``, ``pkgutil``,
``datetime``, ``seed``) which are rebound here, plus the existing
setStandardInput/Output seam.  A CPython audit hook is the backstop that
records any access that did not come through a proxy.
"""
import os
import sys

from . import world as W

_CURRENT = None          # the World being simulated in this process
_HOOKED = False
_SAVED = None

_LIBDIRS = None

WATCHED_PREFIXES = ("os.", "shutil.", "subprocess.", "socket.", "glob.",
                    "pathlib.", "tempfile.", "ctypes.", "urllib.", "ftplib.",
                    "http.", "smtplib.", "webbrowser.")
IGNORED = {"os.putenv", "os.unsetenv", "os.walk", "os.fwalk",
           "os.add_dll_directory"}


def _libdirs():
    global _LIBDIRS
    if _LIBDIRS is None:
        import sysconfig
        d = {os.path.realpath(sys.prefix), os.path.realpath(sys.base_prefix)}
        for k in ("stdlib", "platstdlib", "purelib", "platlib"):
            p = sysconfig.get_paths().get(k)
            if p:
                d.add(os.path.realpath(p))
        _LIBDIRS = tuple(sorted(d))
    return _LIBDIRS


def _audit(event, args):
    w = _CURRENT
    if w is None or not w.sut_running or w.in_proxy:
        return
    if event == "open":
        path = args[0]
        if isinstance(path, int):
            return
        try:
            path = os.fspath(path)
            if isinstance(path, bytes):
                path = path.decode("utf-8", "replace")
        except TypeError:
            return
        rp = os.path.realpath(path)
        if rp.endswith((".py", ".pyc", ".so")):
            return
        for d in _libdirs():
            if rp.startswith(d + os.sep) and not rp.endswith(".ckl"):
                return
        w.in_proxy += 1
        try:
            w.bypass.append(("open", w.virt(rp), str(args[1])))
            w.log("bypass", "open", w.virt(rp), str(args[1]))
        finally:
            w.in_proxy -= 1
        return
    if event in IGNORED:
        return
    if event.startswith(WATCHED_PREFIXES):
        w.in_proxy += 1
        try:
            short = tuple(str(a)[:80] for a in args[:2])
            w.bypass.append((event,) + short)
            w.log("bypass", event, *short)
        finally:
            w.in_proxy -= 1


def install(world, prng_seed=0.5):
    """route the interpreter's outside world through `world`"""
    global _CURRENT, _HOOKED, _SAVED
    from .sut import load
    load()
    import ckl.functions as F
    import ckl.nodes as N
    import ckl.values as V
    import ckl.interpreter as I
    import ckl.repl as R
    import ckl.run as RUN
    if _SAVED is not None:
        uninstall()
    if not _HOOKED:
        sys.addaudithook(_audit)
        _HOOKED = True
    saved = []

    def bind(mod, name, val):
        saved.append((mod, name, mod.__dict__.get(name, _MISSING)))
        setattr(mod, name, val)

    osp = W.OsProxy(world)
    openp = W.OpenProxy(world)
    dtp = W.make_datetime_proxy(world)
    for mod in (F, N, V, I, R, RUN):
        bind(mod, "open", openp)
        if "os" in mod.__dict__:
            bind(mod, "os", osp)
    bind(F, "shutil", W.ShutilProxy(world))
    bind(F, "subprocess", W.SubprocessProxy(world))
    bind(F, "pkgutil", W.PkgutilProxy(world))
    bind(N, "pkgutil", W.PkgutilProxy(world))
    bind(F, "datetime", dtp)
    bind(V, "datetime", dtp)
    bind(F, "seed", prng_seed)
    # the console: builtin print used by execute(echo=TRUE) and ConsoleOutput
    cons = W.ConsoleProxy(world)
    bind(F, "print", cons)
    bind(V, "print", cons)
    # anything the repository might start importing later (pathlib, glob,
    # tempfile ...) is caught by the audit hook instead
    _SAVED = saved
    _CURRENT = world
    return world


_MISSING = object()


def uninstall():
    global _CURRENT, _SAVED
    if _SAVED is not None:
        for mod, name, val in reversed(_SAVED):
            if val is _MISSING:
                try:
                    delattr(mod, name)
                except AttributeError:
                    pass
            else:
                setattr(mod, name, val)
    _SAVED = None
    _CURRENT = None


def current():
    return _CURRENT
