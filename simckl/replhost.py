"""The real REPL loop (ckl.repl.main) as host of a simulated session.

repl.main runs in its own thread; the harness and the REPL hand a baton back
and forth at the REPL's input() calls, so exactly one of them runs at any
time and the schedule is fixed by the command list (deterministic).  Seams
(module attributes, no change to /repo): ckl.repl.input / ckl.repl.print,
sys.argv as seen by ckl.repl, sys.stdin/stdout as seen by ckl.interpreter,
and ckl.interpreter.Interpreter (a recording subclass, so that the outcome
of every interpret call the REPL makes is observed directly instead of being
parsed back from printed text).
"""
import threading
import types


class ReplHost:
    def __init__(self, sim, name, secure, legacy, modulepath):
        self.sim = sim
        self.name = name
        self.to_repl = threading.Semaphore(0)
        self.to_harness = threading.Semaphore(0)
        self.line = None
        self.printed = []
        self.calls = []           # outcomes of interpret calls
        self.ctor = []            # arguments of every Interpreter(...) call
        self.alive = True
        self.exc = None
        self.interp = None
        self.prompts = []
        self._saved = []
        self.argv = ["repl"] + (["-s"] if secure else []) + \
            (["-l"] if legacy else []) + \
            (["-m", modulepath] if modulepath else [])
        self.thread = None

    # ---- seams -----------------------------------------------------------
    def _install(self):
        import ckl.repl as R
        import ckl.interpreter as I
        from .world import SimIn, SimOut
        host = self
        sim = self.sim
        out = SimOut(sim.w, self.name + ".out")
        inp = SimIn(sim.w, "", self.name + ".in")
        sim.outs[self.name] = out
        sim.ins[self.name] = inp
        Base = I.Interpreter

        class RecInterpreter(Base):
            def __init__(self, *a, **k):
                if threading.current_thread() is host.thread:
                    host.ctor.append((a, dict(k)))
                super().__init__(*a, **k)
                # only interpreters the REPL itself creates are "the REPL's
                # interpreter" (the harness may create others meanwhile)
                if threading.current_thread() is host.thread:
                    host.interp = self
                    sim.inst[host.name] = self

            def interpret(self, script, filename, environment=None):
                try:
                    r = Base.interpret(self, script, filename, environment)
                except BaseException as e:   # noqa: BLE001
                    host.calls.append(("exc", e))
                    raise
                host.calls.append(("val", r))
                return r

        def fake_input(prompt=""):
            host.prompts.append(prompt)
            host.to_harness.release()      # "I am waiting for a line"
            host.to_repl.acquire()
            if host.line is None:
                raise EOFError()
            return host.line

        def fake_print(*args, **kw):
            host.printed.append(" ".join(str(a) for a in args))

        fsys = types.SimpleNamespace(stdout=out, stdin=inp, argv=self.argv)
        rsys = types.SimpleNamespace(argv=self.argv, stdout=out, stdin=inp)
        for mod, nme, val in ((R, "input", fake_input),
                              (R, "print", fake_print), (R, "sys", rsys),
                              (I, "sys", fsys),
                              (I, "Interpreter", RecInterpreter)):
            self._saved.append((mod, nme, mod.__dict__.get(nme, _MISSING)))
            setattr(mod, nme, val)

    def _uninstall(self):
        for mod, nme, val in reversed(self._saved):
            if val is _MISSING:
                try:
                    delattr(mod, nme)
                except AttributeError:
                    pass
            else:
                setattr(mod, nme, val)
        self._saved = []

    # ---- life cycle --------------------------------------------------------
    def start(self):
        import ckl.repl as R
        self._install()

        def run():
            try:
                R.main()
            except BaseException as e:   # noqa: BLE001
                self.exc = e
            finally:
                self.alive = False
                self.to_harness.release()
        self.thread = threading.Thread(target=run, daemon=True,
                                       name="simckl-repl-" + self.name)
        self.thread.start()
        self.to_harness.acquire()          # until the first prompt
        return self.alive

    def send(self, line):
        """type one line; returns when the REPL asks for the next one (or
        has ended).  Returns (interpret outcomes, printed lines)."""
        if not self.alive:
            raise ReplDied(self.exc)
        n_calls, n_print = len(self.calls), len(self.printed)
        self.line = line
        self.to_repl.release()
        self.to_harness.acquire()
        calls = self.calls[n_calls:]
        printed = self.printed[n_print:]
        if not self.alive and line is not None and line != "exit":
            raise ReplDied(self.exc, calls, printed)
        return calls, printed

    def stop(self):
        try:
            if self.alive:
                self.line = None
                self.to_repl.release()
                self.to_harness.acquire(timeout=5)
        finally:
            self._uninstall()


class RunHost(ReplHost):
    """The real command-line host (ckl.run.main) as host of a session.

    Every command is written to a script file in the simulated file system
    and executed by one real call of ckl.run.main(): argument parsing, the
    existence test, reading the script, interpret, and the host's report of
    the value or the error are the repository's code.  Stub: the
    Interpreter constructor seen by ckl.run hands back the *same*
    interpreter on every call, so that the session oracle (which needs
    state to persist) applies; a real `run` process ends after one script.
    """
    SCRIPT = "/sim/run/main.ckl"

    def __init__(self, sim, name, secure, legacy, modulepath):
        super().__init__(sim, name, secure, legacy, modulepath)
        self.argv = ["run"] + self.argv[1:] + [self.SCRIPT, "a1", "a2"]
        self.exits = []

    def _install(self):
        super()._install()
        import sys
        import ckl.run as RUN
        import ckl.interpreter as I
        host = self
        Rec = I.Interpreter          # the recording subclass

        def factory(*a, **k):
            # (other interpreters the harness creates meanwhile are not the
            # host's: only what ckl.run itself constructs is registered)
            host.ctor.append((a, dict(k)))
            if host.interp is None:
                host.interp = Rec(*a, **k)
                host.sim.inst[host.name] = host.interp
            return host.interp

        def fake_print(*args, **kw):
            if kw.get("file") is not None:
                host.stderr.append(" ".join(str(a) for a in args))
            else:
                host.printed.append(" ".join(str(a) for a in args))

        self.stderr = []
        rsys = types.SimpleNamespace(argv=self.argv, exit=sys.exit,
                                     stderr=object(),
                                     stdout=self.sim.outs[self.name],
                                     stdin=self.sim.ins[self.name])
        for mod, nme, val in ((RUN, "sys", rsys), (RUN, "print", fake_print),
                              (RUN, "Interpreter", factory)):
            self._saved.append((mod, nme, mod.__dict__.get(nme, _MISSING)))
            setattr(mod, nme, val)

    def start(self):
        self.thread = None
        self._install()
        w = self.sim.w
        w.in_proxy += 1
        try:
            w.put_dir("/sim/run")
        finally:
            w.in_proxy -= 1
        # a first, empty script: the host constructs its interpreter
        self.send("NULL")
        return self.alive

    def send(self, line):
        import ckl.run as RUN
        if line is None:
            return [], []
        n_calls, n_print = len(self.calls), len(self.printed)
        w = self.sim.w
        w.in_proxy += 1              # the harness, not the program, writes
        try:
            w.put_file(self.SCRIPT, line)
        finally:
            w.in_proxy -= 1
        try:
            RUN.main()
        except BaseException as e:   # noqa: BLE001
            calls = self.calls[n_calls:]
            if calls and calls[-1][0] == "exc" and calls[-1][1] is e:
                raise                # left interpret, not caught by the host
            self.alive = False
            self.exc = e
            raise ReplDied(e, calls, self.printed[n_print:])
        return self.calls[n_calls:], self.printed[n_print:]

    def stop(self):
        self._uninstall()


class ReplDied(Exception):
    def __init__(self, exc, calls=(), printed=()):
        super().__init__(f"REPL ended with {type(exc).__name__}: {exc}")
        self.exc = exc
        self.calls = list(calls)
        self.printed = list(printed)


_MISSING = object()
