"""Step clock and arbitrary-point fault injector.

A `sys.monitoring` PY_START callback counts every entry into a method named
``evaluate`` (AST nodes) or ``execute`` (function values) of the interpreter.
That count is (a) the simulated clock, (b) the deterministic watchdog (a run
exceeding its step budget is aborted with its seed, reproducibly) and (c) the
'step' fault site: on chosen step numbers the callback raises a
CklRuntimeError, i.e. an error at an arbitrary point of evaluation.
All other code objects return DISABLE, so the overhead is negligible.
"""
import sys

from .sut import SRC, HarnessError

TOOL = 4
NAMES = ("evaluate", "execute")


class StepBudgetExceeded(BaseException):
    """non-termination (or runaway) detected by the deterministic watchdog"""


class StepClock:
    def __init__(self, world=None, budget=2_000_000):
        self.world = world
        self.total = 0
        self.in_op = 0
        self.budget = budget
        self.fault_steps = ()      # step numbers (within the op) to fail
        self.fault_value = None
        self.active = False
        self.fired = 0
        self._mk = None
        if world is not None:
            world.steps = self

    def start(self):
        mon = sys.monitoring
        if mon.get_tool(TOOL) is not None:
            mon.set_events(TOOL, 0)
            mon.free_tool_id(TOOL)
        mon.use_tool_id(TOOL, "simckl")
        mon.register_callback(TOOL, mon.events.PY_START, self._cb)
        mon.set_events(TOOL, mon.events.PY_START)
        mon.restart_events()
        self.active = True

    def stop(self):
        mon = sys.monitoring
        if mon.get_tool(TOOL) is not None:
            mon.set_events(TOOL, 0)
            mon.register_callback(TOOL, mon.events.PY_START, None)
            mon.free_tool_id(TOOL)
        self.active = False

    def begin_op(self, fault_steps=(), budget=None):
        self.in_op = 0
        self.fault_steps = tuple(fault_steps)
        if budget is not None:
            self.budget = budget

    def _cb(self, code, offset):
        if code.co_name not in NAMES or not code.co_filename.startswith(SRC):
            return sys.monitoring.DISABLE
        w = self.world
        if w is not None and not w.sut_running:
            return None
        self.total += 1
        self.in_op += 1
        if self.in_op > self.budget:
            raise StepBudgetExceeded(
                f"step budget {self.budget} exceeded in op")
        if self.fault_steps and self.in_op in self.fault_steps:
            self.fired += 1
            if w is not None:
                w.fired["step:ERR"] = w.fired.get("step:ERR", 0) + 1
                w.fired_in_op.append({"site": "step", "nth": self.in_op})
                w.log("fault", "step", self.in_op)
            from ckl.errors import CklRuntimeError
            from ckl.values import ValueString
            raise CklRuntimeError(ValueString("INJECTED"),
                                  "injected fault", None)
        return None


def require_steps(clock, what):
    if clock.total == 0:
        raise HarnessError(
            f"{what}: the step clock saw no evaluate/execute entry -- "
            "methods renamed? failing closed")
