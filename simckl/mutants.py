"""Sensitivity self-test: small realistic breakages, each applied to a scratch
copy of /repo/src (outside /repo and /verif), must be caught by the quick
check of the property they break.  Not a MANIFEST check; results go to
/verif/SENSITIVITY.md.

usage: python -m simckl mutants [P ...] [--only name]
"""
import os
import shutil
import subprocess
import sys
import tempfile
import time

VERIF = os.path.dirname(os.path.dirname(os.path.abspath(__file__)))
REPO_SRC = "/repo/src"

# (property, name, file, old, new)
M = []


def mut(prop, name, file, old, new, count=1):
    M.append({"prop": prop, "name": name, "file": file, "old": old,
              "new": new, "count": count})


# ---- C05 ---------------------------------------------------------------
mut("C05", "finally-skipped-when-uncaught", "ckl/nodes.py",
    """                    return expr.evaluate(environment)
            raise
        finally:
            for expression in self.finallyexprs:
                expression.evaluate(environment)
        return result""",
    """                    result = expr.evaluate(environment)
                    for expression in self.finallyexprs:
                        expression.evaluate(environment)
                    return result
            raise
        for expression in self.finallyexprs:
            expression.evaluate(environment)
        return result""")
mut("C05", "finally-before-handler-and-after", "ckl/nodes.py",
    """        except CklRuntimeError as e:
            for err, expr in self.catchexprs:""",
    """        except CklRuntimeError as e:
            for expression in self.finallyexprs:
                expression.evaluate(environment)
            for err, expr in self.catchexprs:""")
mut("C05", "handler-by-repr", "ckl/nodes.py",
    "if not err or e.value == err.evaluate(environment):",
    "if not err or str(e.value) == str(err.evaluate(environment)):")
mut("C05", "handler-by-identity", "ckl/nodes.py",
    "if not err or e.value == err.evaluate(environment):",
    "if not err or e.value is err.evaluate(environment):")
mut("C05", "last-match-wins", "ckl/nodes.py",
    "            for err, expr in self.catchexprs:\n"
    "                if not err or e.value",
    "            for err, expr in reversed(self.catchexprs):\n"
    "                if not err or e.value")
mut("C05", "catch-all-ignored", "ckl/nodes.py",
    "if not err or e.value == err.evaluate(environment):",
    "if err and e.value == err.evaluate(environment):")
mut("C05", "break-bypasses-finally", "ckl/nodes.py",
    """        finally:
            for expression in self.finallyexprs:
                expression.evaluate(environment)
        return result""",
    """        finally:
            if not result.isBreak():
                for expression in self.finallyexprs:
                    expression.evaluate(environment)
        return result""")
mut("C05", "error-value-replaced-on-reraise", "ckl/nodes.py",
    """                    return expr.evaluate(environment)
            raise
        finally:""",
    """                    return expr.evaluate(environment)
            raise CklRuntimeError(ValueString("ERROR"), e.msg, e.pos)
        finally:""")
mut("C05", "stream-loop-swallows-body-error", "ckl/nodes.py",
    """            except CklRuntimeError:
                raise
            except Exception:
                raise CklRuntimeError(
                    ValueString("ERROR"), "Cannot read from input", self.pos""",
    """            except Exception:
                raise CklRuntimeError(
                    ValueString("ERROR"), "Cannot read from input", self.pos""")
mut("C05", "funcall-catches-and-rewraps", "ckl/nodes.py",
    """    except CklRuntimeError as e:
        e.stacktrace.append(getFuncallString(fn, args_) + " " + str(pos))
        raise""",
    """    except CklRuntimeError as e:
        e.stacktrace.append(getFuncallString(fn, args_) + " " + str(pos))
        if e.value.isMap():
            e.value = ValueString("ERROR")
        raise""")

# ---- C10 ---------------------------------------------------------------
mut("C10", "require-pop-only-on-success", "ckl/nodes.py",
    """                modules[moduleidentifier] = moduleEnv
        finally:
            environment.popModuleStack()""",
    """                modules[moduleidentifier] = moduleEnv
            environment.popModuleStack()
        finally:
            pass""")
mut("C10", "module-cached-before-evaluation", "ckl/nodes.py",
    """                node.evaluate(moduleEnv)
                modules[moduleidentifier] = moduleEnv""",
    """                modules[moduleidentifier] = moduleEnv
                node.evaluate(moduleEnv)""")
mut("C10", "interpret-in-fresh-child-env", "ckl/interpreter.py",
    """        if environment is None:
            env = self.environment
        else:""",
    """        if environment is None:
            env = self.environment.newEnv()
        else:""")
mut("C10", "session-recreated-after-error", "ckl/interpreter.py",
    """        result = parse_script(script, filename).evaluate(env)
        if result.isReturn():""",
    """        try:
            result = parse_script(script, filename).evaluate(env)
        except CklRuntimeError:
            self.environment = self.base_environment.newEnv()
            raise
        if result.isReturn():""")
mut("C10", "modules-class-level", "ckl/functions.py",
    """class Environment:
    def __init__(self, parent=None):
        self.map = dict()
        self.parent = parent
        if self.parent is None:
            self.modules = dict()
            self.modulestack = []""",
    """class Environment:
    modules = dict()
    modulestack = []

    def __init__(self, parent=None):
        self.map = dict()
        self.parent = parent""")
mut("C10", "foreign-environment-accepted", "ckl/interpreter.py",
    """                if "checkerlang_secure_mode" in root.map:
                    raise CklRuntimeError(
                        ValueString("ERROR"),
                        "Environment belongs to another interpreter"
                    )
                root.withParent(self.environment)""",
    """                root.withParent(self.environment)""")
mut("C10", "caller-env-reattached-every-call", "ckl/interpreter.py",
    """            if root is not self.base_environment:
                if "checkerlang_secure_mode" in root.map:
                    raise CklRuntimeError(
                        ValueString("ERROR"),
                        "Environment belongs to another interpreter"
                    )
                root.withParent(self.environment)""",
    """            root.withParent(self.environment)""")
mut("C10", "syntax-error-after-partial-eval", "ckl/interpreter.py",
    """        result = parse_script(script, filename).evaluate(env)
        if result.isReturn():""",
    """        if ";" in script and "do" not in script:
            head, _, tail = script.partition(";")
            parse_script(head, filename).evaluate(env)
            result = parse_script(tail, filename).evaluate(env)
        else:
            result = parse_script(script, filename).evaluate(env)
        if result.isReturn():""")
mut("C10", "failed-def-leaves-null-binding", "ckl/nodes.py",
    """    def evaluate(self, environment):
        value = self.expression.evaluate(environment)
        value.info = self.info
        environment.put(self.identifier, value)
        import ckl.functions""",
    """    def evaluate(self, environment):
        environment.put(self.identifier, NULL)
        value = self.expression.evaluate(environment)
        value.info = self.info
        environment.put(self.identifier, value)
        import ckl.functions""")


mut("C10", "repl-concatenates-error-message", "ckl/repl.py",
    '+ ": " + str(e.msg)', '+ ": " + e.msg')
mut("C10", "repl-prints-raw-python-repr", "ckl/repl.py",
    """                    if value != NULL:
                        print(value)""",
    """                    if value != NULL:
                        print(value.value)""")
mut("C10", "require-read-error-unwrapped", "ckl/nodes.py",
    """        try:
            with open(filepath, encoding="utf-8") as infile:
                return infile.read()
        except Exception:
            raise CklRuntimeError(
                ValueString("ERROR"),
                f"Cannot read module file {filepath}",
                self.pos)""",
    """        with open(filepath, encoding="utf-8") as infile:
            return infile.read()""")


def apply(m, src_root):
    path = os.path.join(src_root, m["file"])
    with open(path) as f:
        s = f.read()
    if s.count(m["old"]) != m["count"]:
        return False
    s = s.replace(m["old"], m["new"])
    with open(path, "w") as f:
        f.write(s)
    return True


def run_one(m, runs=None, timeout=600):
    tmp = tempfile.mkdtemp(prefix="simckl-mut-")
    try:
        src = os.path.join(tmp, "src")
        shutil.copytree(REPO_SRC, src, ignore=shutil.ignore_patterns(
            "__pycache__", "*.egg-info"))
        if not apply(m, src):
            return {"status": "patch-does-not-apply"}
        env = dict(os.environ)
        env.update({"SIMCKL_SRC": src, "PYTHONPATH": VERIF,
                    "PYTHONHASHSEED": "0", "TZ": "UTC",
                    "SIMCKL_NO_EVIDENCE": "1",
                    "SIMCKL_REPLAY_DIR": os.path.join(tmp, "replays"),
                    "PYTHONDONTWRITEBYTECODE": "1"})
        env.pop("SIMCKL_SCRATCH", None)
        if runs:
            env["SIMCKL_RUNS"] = str(runs)
        t0 = time.time()
        p = subprocess.run([sys.executable, "-m", "simckl", "check",
                            m["prop"], "--tier", "quick"], cwd=VERIF,
                           env=env, capture_output=True, text=True,
                           timeout=timeout)
        lines = [ln for ln in p.stdout.splitlines()
                 if ln.startswith(("VIOLATION", "  clause=", "HARNESS"))]
        return {"status": {0: "MISSED", 1: "caught", 2: "harness-error"}.get(
            p.returncode, f"rc={p.returncode}"),
            "wall": round(time.time() - t0, 1),
            "lines": lines[:6], "tail": p.stdout[-600:] if p.returncode
            not in (0, 1) else ""}
    finally:
        shutil.rmtree(tmp, ignore_errors=True)


# ---- continuation session: the three repairs of round 7, reverted --------
mut("C05", "remove-strict-again", "ckl/functions.py",
    """    def remove(self, name):
        self.map.pop(name, None)""",
    """    def remove(self, name):
        del self.map[name]""")
mut("C10", "hosts-report-asString-again", "ckl/errors.py",
    """    try:
        return str(value.asString().value)
    except CklRuntimeError:
        return str(value)""",
    """    return str(value.asString().value)""")
mut("C11", "require-nonstring-type-of-str", "ckl/nodes.py",
    '"modulespec but got " + val.type(),',
    '"modulespec but got " + modulespec.type(),')
mut("C10", "remove-reaches-parent", "ckl/functions.py",
    """    def remove(self, name):
        self.map.pop(name, None)""",
    """    def remove(self, name):
        if name in self.map:
            del self.map[name]
        elif self.parent:
            self.parent.remove(name)""")
mut("C09", "run-host-drops-secure-with-legacy", "ckl/run.py",
    "interpreter = Interpreter(args.secure, args.legacy)",
    "interpreter = Interpreter(args.secure and not args.legacy, args.legacy)")

def main(argv):
    only = None
    if "--only" in argv:
        only = argv[argv.index("--only") + 1]
        argv = [a for a in argv if a not in ("--only", only)]
    props = [a.upper() for a in argv] or sorted({m["prop"] for m in M})
    # make sure every property module (and its mutants) is registered
    import importlib
    for p in ("c09", "c11", "c12", "c13"):
        try:
            mod = importlib.import_module("simckl.props." + p)
            for e in getattr(mod, "MUTANTS", []):
                if e["name"] not in {x["name"] for x in M}:
                    M.append(e)
        except ImportError:
            pass
    if not argv:
        props = sorted({m["prop"] for m in M})
    results = []
    for m in M:
        if m["prop"] not in props or (only and m["name"] != only):
            continue
        r = run_one(m)
        results.append((m, r))
        print(f"{m['prop']} {m['name']:45s} {r['status']:10s} "
              f"{r.get('wall', '')}s")
        for ln in r.get("lines", [])[:2]:
            print("      " + ln[:200])
        if r.get("tail"):
            print(r["tail"])
        sys.stdout.flush()
    if not only:
        write_report(results, props)
    missed = [m["name"] for m, r in results if r["status"] != "caught"]
    print(f"{len(results) - len(missed)}/{len(results)} caught; "
          f"not caught: {missed}")
    return 0 if not missed else 1


def write_report(results, props):
    path = os.path.join(VERIF, "SENSITIVITY.md")
    old = {}
    if os.path.exists(path):
        with open(path) as f:
            for ln in f:
                if ln.startswith("| C"):
                    parts = [x.strip() for x in ln.strip().strip("|")
                             .split("|")]
                    if len(parts) >= 4:
                        old[(parts[0], parts[1])] = parts
    for m, r in results:
        first = ""
        for ln in r.get("lines", []):
            if ln.strip().startswith("clause="):
                first = ln.strip().split(" runs=")[0]
                break
        old[(m["prop"], m["name"])] = [m["prop"], m["name"], r["status"],
                                      str(r.get("wall", "")), first]
    with open(path, "w") as f:
        f.write("# Sensitivity self-test (python -m simckl mutants)\n\n"
                "Each row: a small realistic breakage applied to a scratch "
                "copy of /repo/src and the verdict of the quick check of "
                "the property it breaks.\n\n"
                "| property | mutant | quick check | wall s | first "
                "failing clause |\n|---|---|---|---|---|\n")
        for key in sorted(old):
            f.write("| " + " | ".join(old[key]) + " |\n")
