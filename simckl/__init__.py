"""simckl -- deterministic simulation with fault injection for checkerlang-py.

See /verif/DESIGN.md.  Pure stdlib.  The system under test is imported from
SIMCKL_SRC (default /repo/src) so that the current working tree is what runs.
"""
