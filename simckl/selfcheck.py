"""setup_cmd: prove the machinery can run here (offline, nothing to build)."""
import sys
import tempfile
import shutil


def main():
    from . import sut
    from .sut import HarnessError
    if sys.version_info < (3, 12) or not hasattr(sys, "monitoring"):
        raise HarnessError("python >= 3.12 with sys.monitoring required")
    sut.load()
    from .session import Sim
    root = tempfile.mkdtemp(prefix="simckl-self-")
    try:
        sim = Sim(root)
        try:
            it = sim.new_interpreter("A")
            sim.w.put_file("/sim/home/.ckl/modules/m.ckl",
                           "print('LOAD m|');\ndef val = 7;\n")
            out = sim.run(0, "A", [], lambda: it.interpret(
                "require m; m->val", "self"))
            assert out["kind"] == "val" and out["val"] == "7", out
            out = sim.run(1, "A", [{"site": "out.write", "nth": 0}],
                          lambda: it.interpret("print('x')", "self"))
            assert out["kind"] == "rt", out
            assert sim.clock.total > 0
            assert sim.outs["A"].text() == "LOAD m|"
        finally:
            sim.close()
    finally:
        shutil.rmtree(root, ignore_errors=True)
    print(f"simckl selfcheck ok: python {sys.version.split()[0]}, "
          f"ckl from {sut.SRC}")
    return 0
