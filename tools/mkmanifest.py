#!/usr/bin/env python3
"""Regenerates /verif/MANIFEST.json (kept in one place so it stays valid)."""
import json
import os

HERE = os.path.dirname(os.path.dirname(os.path.abspath(__file__)))
PY = "/venv/bin/python"
RUN = (f"cd /verif && PYTHONHASHSEED=0 PYTHONDONTWRITEBYTECODE=1 TZ=UTC "
       f"timeout {{t}} {PY} -m simckl check {{p}} --tier {{tier}}")

NA = {
    "C01": "pure function of the source text (text -> tree or syntax error); no schedule, clock, fault or persistent state for a simulator to own",
    "C02": "pure function of an expression's operands; nothing to schedule or fault",
    "C03": "pure function of a program; environments are internal deterministic data structures, no outside interaction",
    "C04": "pure function of a program (structured control flow); no nondeterminism or fault in it",
    "C06": "algebraic law over values (equality); pure",
    "C07": "algebraic law over values (ordering/sorting); pure",
    "C08": "pure function value -> text -> value",
    "C14": "pure function of source text (layout/spelling independence)",
    "C15": "pure function of (sequence, indices)",
    "C16": "single-threaded heap semantics: the result of an operation sequence is a function of that sequence; no second party, fault or clock",
    "C17": "pure calendar arithmetic; the clock only supplies an input value",
    "C18": "pure string functions",
    "C19": "pure collection/numeric functions",
    "C20": "pure function of source text (positions)",
}
def main():
    import importlib.util
    spec = importlib.util.spec_from_file_location(
        "claims", os.path.join(HERE, "tools", "claims.py"))
    claims = importlib.util.module_from_spec(spec)
    spec.loader.exec_module(claims)
    claimed = claims.CLAIMED
    checks = []
    for pid in sorted(claimed):
        c = claimed[pid]
        checks.append({
            "property_id": pid,
            "quick_cmd": RUN.format(t=c.get("quick_timeout", 900), p=pid,
                                    tier="quick"),
            "thorough_cmd": RUN.format(t=c.get("thorough_timeout", 7200),
                                       p=pid, tier="thorough"),
            "evidence_file": f"/verif/evidence/{pid}.json",
            "replay_cmd_template":
                f"cd /verif && PYTHONHASHSEED=0 TZ=UTC {PY} -m simckl "
                "replay {path}",
            "engine": "simckl",
            "level_claimed": {"category": "exploration", "text": c["text"],
                              "design_ref": c["ref"]},
            "level_note": c["note"],
            "technique": c["technique"],
        })
    na = [{"property_id": k, "reason": v} for k, v in sorted(NA.items())]
    for k, v in sorted(claims.PENDING.items()):
        if k not in claimed:
            na.append({"property_id": k, "reason": v})
    na.sort(key=lambda e: e["property_id"])
    man = {
        "version": 1,
        "setup_cmd": f"cd /verif && TZ=UTC {PY} -m simckl selfcheck",
        "hooks": {
            "guard": "CKL_VERIF",
            "enable": "none needed: the simulator takes the seams the code "
                      "already has (module-level names open/os/shutil/"
                      "subprocess/pkgutil/datetime/seed rebound from the "
                      "harness, Interpreter.setStandardInput/Output, HOME); "
                      "no hook was added to /repo and the guard variable is "
                      "not read by it",
            "baseline_off_cmd": "cd /repo && /venv/bin/python -m pytest -ra "
                                "-q -p no:cacheprovider --timeout=900 "
                                "--continue-on-collection-errors",
            "source_commits": [],
            "add_only": True,
        },
        "engines": [{
            "name": "simckl", "path": "/verif/simckl",
            "serves_properties": sorted(claimed),
            "kind_free_text": "deterministic simulator with fault injection "
                              "(virtual FS/process table/streams/clock, "
                              "sys.monitoring step clock, seeded workloads, "
                              "reference models, ddmin minimiser, replay)",
        }],
        "checks": checks,
        "not_applicable": na,
        "notes": "All checks: exit 0 held, 1 VIOLATION (replay file under "
                 "/verif/replays), 2 harness failure. VERIF_SEED selects the "
                 "batch; run k of property P uses sha256(VERIF_SEED/P/tier/k)."
                 " Repairs made to /repo are listed as 'fixed' entries in "
                 "/verif/known_findings.json.",
    }
    with open(os.path.join(HERE, "MANIFEST.json"), "w") as f:
        json.dump(man, f, indent=1)
        f.write("\n")


if __name__ == "__main__":
    main()
