#!/usr/bin/env python3
"""Regenerates the seeded-changes table inside DESIGN.md from meta.json."""
import glob
import json
import os

HERE = os.path.dirname(os.path.dirname(os.path.abspath(__file__)))


def main():
    rows = ["| id | property | what the change does | needs | caught by "
            "(quick) | story |", "|---|---|---|---|---|---|"]
    for mp in sorted(glob.glob(os.path.join(HERE, "seeded", "*",
                                            "meta.json"))):
        m = json.load(open(mp))
        checks = m.get("checks", {})
        caught = ", ".join(
            f"{p} ({v.get('violations', '?')} sig, first: "
            f"{(v.get('first') or '').split(' sig=')[-1].split(' ')[0]})"
            for p, v in checks.items() if v.get("exit") == 1) or "—"
        if m.get("obsolete"):
            caught = "(obsolete) " + caught
        rows.append("| " + " | ".join([
            m["id"], m["property"],
            (m.get("breaks") or "").replace("|", "/"),
            (m.get("needs") or "").replace("|", "/"),
            caught.replace("|", "/"),
            (m.get("detection_story") or "").replace("|", "/")]) + " |")
    p = os.path.join(HERE, "DESIGN.md")
    s = open(p).read()
    a = s.index("<!-- SEEDED-TABLE-BEGIN -->") + len(
        "<!-- SEEDED-TABLE-BEGIN -->")
    b = s.index("<!-- SEEDED-TABLE-END -->")
    s = s[:a] + "\n" + "\n".join(rows) + "\n" + s[b:]
    open(p, "w").write(s)


if __name__ == "__main__":
    main()
