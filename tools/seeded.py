#!/usr/bin/env python3
"""Confirm a seeded breaking change and run the checks against it.

usage: tools/seeded.py <change dir> <property> <seeded id> [--tier quick]

<change dir> holds patch.diff, demo.py, notes.md as produced by a sub-agent.
Steps (all in scratch copies outside /repo and /verif, removed afterwards):
  1. the patch applies to a clean checkout of /repo HEAD,
  2. the existing test suite passes with it (854 passed),
  3. demo.py fails with it and passes without it,
  4. the property's check is run against the patched tree (SIMCKL_SRC).
On success the change is kept as /verif/seeded/<id>/ with meta.json.
"""
import json
import os
import shutil
import subprocess
import sys
import tempfile
import time

VERIF = os.path.dirname(os.path.dirname(os.path.abspath(__file__)))
PY = "/venv/bin/python"


def sh(cmd, **kw):
    return subprocess.run(cmd, capture_output=True, text=True, **kw)


def main():
    cdir, prop, sid = (os.path.abspath(sys.argv[1]), sys.argv[2].upper(),
                       sys.argv[3])
    tier = "quick"
    if "--tier" in sys.argv:
        tier = sys.argv[sys.argv.index("--tier") + 1]
    others = []
    if "--also" in sys.argv:
        others = sys.argv[sys.argv.index("--also") + 1].upper().split(",")
    patch = os.path.join(cdir, "patch.diff")
    demo = os.path.join(cdir, "demo.py")
    wt = tempfile.mkdtemp(prefix="seeded-wt-")
    os.rmdir(wt)
    meta = {"id": sid, "property": prop, "source_dir": cdir}
    try:
        r = sh(["git", "-C", "/repo", "worktree", "add", "-q", "--detach",
                wt, "HEAD"])
        assert r.returncode == 0, r.stderr
        head = sh(["git", "-C", "/repo", "rev-parse", "--short", "HEAD"]
                  ).stdout.strip()
        meta["repo_head"] = head
        env = dict(os.environ, PYTHONPATH=os.path.join(wt, "src"),
                   PYTHONDONTWRITEBYTECODE="1")
        r0 = sh([PY, demo], env=env, cwd=wt, timeout=600)
        meta["demo_without_change"] = r0.returncode
        r = sh(["git", "-C", wt, "apply", os.path.abspath(patch)])
        meta["patch_applies"] = r.returncode == 0
        if r.returncode != 0:
            print("patch does not apply:", r.stderr)
            return finish(meta, cdir, False)
        t = sh([PY, "-m", "pytest", "-q", "-p", "no:cacheprovider"],
               env=env, cwd=wt, timeout=900)
        meta["tests_with_change"] = t.stdout.strip().splitlines()[-1]
        r1 = sh([PY, demo], env=env, cwd=wt, timeout=600)
        meta["demo_with_change"] = r1.returncode
        ok = ("854 passed" in meta["tests_with_change"]
              and "failed" not in meta["tests_with_change"]
              and r0.returncode == 0 and r1.returncode != 0)
        meta["confirmed"] = ok
        print(json.dumps(meta, indent=1))
        if not ok:
            print(r1.stdout[-800:], r1.stderr[-800:])
            return finish(meta, cdir, False)
        # run the check(s) against the patched tree
        meta["checks"] = {}
        for p in [prop] + others:
            env2 = dict(os.environ, SIMCKL_SRC=os.path.join(wt, "src"),
                        PYTHONPATH=VERIF, PYTHONHASHSEED="0", TZ="UTC",
                        SIMCKL_NO_EVIDENCE="1",
                        SIMCKL_REPLAY_DIR=os.path.join(wt, "_replays"),
                        PYTHONDONTWRITEBYTECODE="1")
            env2.pop("SIMCKL_SCRATCH", None)
            t0 = time.time()
            c = sh([PY, "-m", "simckl", "check", p, "--tier", tier],
                   env=env2, cwd=VERIF, timeout=7200)
            lines = [ln for ln in c.stdout.splitlines()
                     if ln.startswith(("VIOLATION", "  clause=", "HARNESS",
                                       "KNOWN"))]
            first = ""
            for i, ln in enumerate(c.stdout.splitlines()):
                if ln.startswith("  clause="):
                    first = ln.strip() + " :: " + \
                        c.stdout.splitlines()[i + 1].strip()[:400]
                    break
            # replay the first violation in a fresh process
            replay_rc = None
            for ln in c.stdout.splitlines():
                if ln.startswith("VIOLATION"):
                    path = ln.split("replay=")[1].strip()
                    rr = sh([PY, "-m", "simckl", "replay", path], env=env2,
                            cwd=VERIF, timeout=900)
                    replay_rc = rr.returncode
                    break
            meta["checks"][p] = {
                "exit": c.returncode, "wall_s": round(time.time() - t0, 1),
                "tier": tier,
                "violations": sum(1 for ln in lines
                                  if ln.startswith("VIOLATION")),
                "first": first, "replay_exit": replay_rc,
                "tail": c.stdout.strip().splitlines()[-1][:300]}
            print(p, json.dumps(meta["checks"][p], indent=1))
        meta["caught_by"] = [p for p, v in meta["checks"].items()
                             if v["exit"] == 1]
        return finish(meta, cdir, True)
    finally:
        sh(["git", "-C", "/repo", "worktree", "remove", "--force", wt])
        shutil.rmtree(wt, ignore_errors=True)


def finish(meta, cdir, keep):
    sid = meta["id"]
    if "--dry" in sys.argv:
        # measurement only (e.g. under another VERIF_SEED): print, keep
        # the recorded meta.json as it is
        print("DRY", sid, json.dumps({p: [v["exit"], v["violations"]]
                                      for p, v in meta.get("checks",
                                                           {}).items()}))
        return 0
    if keep:
        dest = os.path.join(VERIF, "seeded", sid)
        os.makedirs(dest, exist_ok=True)
        for f in ("patch.diff", "demo.py", "notes.md"):
            src = os.path.join(cdir, f)
            if os.path.exists(src):
                shutil.copy(src, os.path.join(dest, f))
        old = {}
        mp = os.path.join(dest, "meta.json")
        if os.path.exists(mp):
            with open(mp) as f:
                old = json.load(f)
        hist = old.get("history", [])
        if old.get("checks"):
            hist.append({"checks": old["checks"],
                         "repo_head": old.get("repo_head")})
        meta["history"] = hist
        for k in ("needs", "breaks"):
            if k in old:
                meta[k] = old[k]
        meta["what_was_run"] = (
            "tools/seeded.py: git worktree of /repo HEAD; git apply "
            "patch.diff; pytest (baseline command); demo.py with and "
            "without the change; python -m simckl check <P> --tier "
            f"{meta.get('checks', {}).get(meta['property'], {}).get('tier')}"
            " with SIMCKL_SRC=<patched tree>; python -m simckl replay "
            "<first replay file>")
        with open(mp, "w") as f:
            json.dump(meta, f, indent=1)
    return 0 if keep else 1


if __name__ == "__main__":
    sys.exit(main())
