"""What is claimed, per property (input of mkmanifest.py)."""

CLAIMED = {
    "C05": {
        "ref": "DESIGN.md §4.1",
        "technique": "deterministic simulation: generated catch/finally "
                     "nests with a fault injected at every stream effect "
                     "site, event history checked against a reference model",
        "text": "Seeded search over generated nests (depth <= 4) of "
                "do/catch/finally blocks inside functions and for/while/"
                "stream loops, with planned errors of every data kind and "
                "runtime faults, handlers and finally parts that raise or "
                "return. Each nest is run fault-free, with every single "
                "fault position (k-th stream write or read fails), sampled "
                "double faults and, in the thorough tier, errors injected "
                "at arbitrary evaluation steps; the recorded event history "
                "(enter/handler/finally marks) and the outcome are compared "
                "exactly with a reference model, plus model-independent "
                "enter/finally matching on the history. Evidence, not "
                "proof.",
        "note": "Trusted: the reference model's block semantics "
                "(simckl/lang.py Machine.block), the simulated stream "
                "objects, sys.monitoring for step faults. return/break/"
                "continue directly inside a finally part and control values "
                "bound by def are unspecified and not generated. eval() and "
                "other built-ins that re-wrap errors are outside the "
                "generated grammar.",
    },
    "C11": {
        "ref": "DESIGN.md §4.4",
        "technique": "deterministic simulation: generated module graphs on "
                     "a simulated module store, importer sessions with read "
                     "faults, namespace model + load ledger",
        "text": "Seeded search over generated module graphs (<= 5 user "
                "modules with public/private definitions, mutable module "
                "state, LOAD marks, dependencies in every import form, "
                "optional cycles, top-level failures and importer probes) "
                "placed on a simulated module store (home directory, 1-2 "
                "module-path directories with shadowing), driven by importer "
                "sessions that use every require form in seeded order and "
                "repetition (top level, inside functions, inside modules, "
                "identifier/string/string-variable specs) under open/read "
                "faults and torn reads. After every command ls() is compared "
                "with the namespace model (must / must-not / may), stdout "
                "LOAD marks with the load ledger, and values with the shared-"
                "instance model. Evidence, not proof.",
        "note": "Trusted: the namespace/load model in simckl/lang.py, the "
                "module-attribute seams of ckl.nodes (open, os, pkgutil). "
                "Names a module obtained through its own imports may or may "
                "not be re-exported (ignored). Bundled modules and their "
                "case-insensitive file lookup are not part of the generated "
                "graphs.",
    },
    "C12": {
        "ref": "DESIGN.md §4.5",
        "technique": "deterministic simulation of the nondeterminism "
                     "sources: same program batch in fresh processes under "
                     "chosen PYTHONHASHSEEDs x permuted construction order "
                     "x insert/delete history, observable digests diffed",
        "text": "The simulator owns the three sources the property names: "
                "the string-hash seed and process (the same generated batch "
                "runs in 8 (thorough: 32) fresh interpreter processes under "
                "distinct PYTHONHASHSEEDs), construction order (variants "
                "inserting the same elements in a permuted order) and "
                "history (variants that insert extra elements and remove "
                "them again). Programs push sets and maps of strings, "
                "colliding ints, mixed scalars and nested lists through a "
                "sink catalogue that is enumerated completely every run "
                "(every iteration, comprehension, spread, destructuring, "
                "rendering, conversion and operator form, and every function "
                "of the legacy base environment and bundled modules with the "
                "container in each argument position). Oracle: the digest of "
                "(stdout, rendered result, error value/message/position) is "
                "identical in every process and variant; differences are "
                "re-confirmed one program at a time in brand-new processes. "
                "A program counts as non-trivial only if the container's raw "
                "internal order was actually observed to differ. Evidence, "
                "not proof.",
        "note": "Trusted: CPython's PYTHONHASHSEED is the only per-process "
                "source of set/dict order variation; the generator is "
                "hash-seed independent (checked every run). Known finding "
                "(not repaired, listed in known_findings.json): containers "
                "mixing numbers with dates sort intransitively. Equal values "
                "with two spellings (1 / 1.0) are never put in one container.",
    },
    "C13": {
        "ref": "DESIGN.md §4.6",
        "technique": "deterministic simulation: seeded stateful sessions "
                     "over the OS-facing built-ins on a simulated OS with "
                     "faults injected inside operations",
        "text": "PARTIAL: only the OS-facing slice of C13. Seeded search "
                "over sessions of 5-40 operations on streams, files, "
                "directories, processes, environment and clock built-ins in "
                "a non-secure legacy interpreter against a simulated OS "
                "(paths that are text/empty/non-UTF-8/directory/missing/"
                "missing-parent/program; handles reused after close and "
                "after failures; callbacks and loop bodies that raise; half "
                "of the operations wrapped in catch-all), with open/read/"
                "write/flush/close/metadata/process/stream/console faults "
                "landing on the k-th system call inside an operation and "
                "clock jumps between operations. Oracle: every operation "
                "ends with a value or a runtime error carrying a language "
                "value, catch-all intercepts it, no host exception or "
                "syntax error leaves interpret, no non-termination, session "
                "stays usable. The exhaustive sweep of every pure operator "
                "and function over the value pool that the quantifier asks "
                "for is input enumeration without any schedule or fault and "
                "is NOT covered by this check.",
        "note": "Trusted: the simulated OS (simckl/world.py) behaves like "
                "the real one at the calls the interpreter makes (real-backed "
                "files; process table stub; permission failures injected as "
                "EACCES because the sandbox runs as root). Pure built-ins and "
                "operators (1 % 0, ord(''), 'abc'['x'], ...) are outside the "
                "claim; defects there are neither detected nor listed.",
    },
    "C09": {
        "ref": "DESIGN.md §4.2",
        "technique": "deterministic simulation: secure interpreter inside a "
                     "simulated OS that records every attempted effect; "
                     "complete sweeps plus seeded sessions interleaved with "
                     "a non-secure instance",
        "text": "The simulated OS is the observer: every open/stat/listdir/"
                "mkdir/remove/rename/copy/spawn is an event attributed to "
                "the interpreter instance that was running, a canary tree is "
                "compared before and after, and a CPython audit hook catches "
                "accesses that bypass the seams. Enumerated completely in "
                "every run, in the legacy and non-legacy configuration: "
                "every native name the binder knows x {no alias, fresh "
                "alias, alias of an existing secure name, alias run} x 12 "
                "path-like/command-like call shapes; every symbol of every "
                "bundled module x 4 import forms x call shapes; every "
                "syntactic binding form applied to checkerlang_secure_mode "
                "(also through eval/parse and from inside user modules) "
                "followed by the OS-touching natives and a behavioural read "
                "of the flag from a freshly loaded module; a crawl of all "
                "function values reachable from the environments. On top, "
                "seeded sessions mix all of these with failing calls, "
                "faulted requires and step faults on a secure instance "
                "interleaved (either creation order) with a non-secure "
                "instance doing real file/process work in the same process. "
                "Oracle: the secure instance causes no event outside module-"
                "source reads, canary unchanged, flag still TRUE, no script "
                "runner. The sweeps are exhaustive over what the current "
                "tree defines; the sessions are evidence, not proof.",
        "note": "Trusted: every OS access of the interpreter goes through "
                "the rebinding seams or raises a CPython audit event; the "
                "call shapes trigger an effect whenever an OS-touching "
                "built-in is reachable (checked by mutants). Reading "
                "environment variables is not counted as file access. A "
                "rejection of any kind counts as denied.",
    },
    "C10": {
        "ref": "DESIGN.md §4.3",
        "technique": "deterministic simulation: seeded session histories "
                     "with module-store/stream fault injection against a "
                     "reference model",
        "text": "Seeded search over histories of session commands (3-30 "
                "commands, 1-2 interleaved Interpreter instances, every "
                "import form of good/missing/broken/failing/circular user "
                "modules on a simulated module store, caller-supplied "
                "environments) with planned failures and injected transient "
                "and persistent open/read/stat/resource/stream faults; each "
                "command's outcome, output events and visible names are "
                "compared with an executable reference model, a repeated "
                "failing command with the error it gave the first time. "
                "About a fifth of the histories are driven through the real "
                "REPL loop (ckl.repl.main with simulated input/print) "
                "or through one real ckl.run.main() call per command (the "
                "command-line host, with one stub: the same interpreter is "
                "handed back on every call) "
                "instead of direct interpret calls; caller-supplied "
                "environments move between the two instances; commands are "
                "re-issued verbatim later and strings are modified in place. "
                "Evidence, not proof: bounded by the seeds run.",
        "note": "No step faults in this check (planned failures at every "
                "statement position plus mirrored stream/store faults are "
                "used instead). Trusted: the reference model simckl/lang.py (session "
                "semantics as the statement gives them), the module-attribute "
                "seams (faults do not fire on code paths that bypass them; "
                "the audit hook reports bypasses), CPython's sys.monitoring. "
                "Loop-variable residue, checkerlang_* names and re-exported "
                "dependency module objects are treated as unspecified. The "
                "exhaustive length<=5 enumeration the quantifier mentions is "
                "not attempted (that would be bounded model checking).",
    },
}

PENDING = {
}


