"""What is claimed, per property (input of mkmanifest.py)."""

CLAIMED = {
    "C05": {
        "ref": "DESIGN.md §4.1",
        "technique": "deterministic simulation: generated catch/finally "
                     "nests with a fault injected at every stream effect "
                     "site, event history checked against a reference model",
        "text": "Seeded search over generated nests (depth <= 4) of "
                "do/catch/finally blocks inside functions and for/while/"
                "stream loops, with planned errors of every data kind and "
                "runtime faults, handlers and finally parts that raise or "
                "return. Each nest is run fault-free, with every single "
                "fault position (k-th stream write or read fails), sampled "
                "double faults and, in the thorough tier, errors injected "
                "at arbitrary evaluation steps; the recorded event history "
                "(enter/handler/finally marks) and the outcome are compared "
                "exactly with a reference model, plus model-independent "
                "enter/finally matching on the history. Evidence, not "
                "proof.",
        "note": "Trusted: the reference model's block semantics "
                "(simckl/lang.py Machine.block), the simulated stream "
                "objects, sys.monitoring for step faults. return/break/"
                "continue directly inside a finally part and control values "
                "bound by def are unspecified and not generated. eval() and "
                "other built-ins that re-wrap errors are outside the "
                "generated grammar.",
    },
    "C11": {
        "ref": "DESIGN.md §4.4",
        "technique": "deterministic simulation: generated module graphs on "
                     "a simulated module store, importer sessions with read "
                     "faults, namespace model + load ledger",
        "text": "Seeded search over generated module graphs (<= 5 user "
                "modules with public/private definitions, mutable module "
                "state, LOAD marks, dependencies in every import form, "
                "optional cycles, top-level failures and importer probes) "
                "placed on a simulated module store (home directory, 1-2 "
                "module-path directories with shadowing), driven by importer "
                "sessions that use every require form in seeded order and "
                "repetition (top level, inside functions, inside modules, "
                "identifier/string/string-variable specs) under open/read "
                "faults and torn reads. After every command ls() is compared "
                "with the namespace model (must / must-not / may), stdout "
                "LOAD marks with the load ledger, and values with the shared-"
                "instance model. Evidence, not proof.",
        "note": "Trusted: the namespace/load model in simckl/lang.py, the "
                "module-attribute seams of ckl.nodes (open, os, pkgutil). "
                "Names a module obtained through its own imports may or may "
                "not be re-exported (ignored). Bundled modules and their "
                "case-insensitive file lookup are not part of the generated "
                "graphs.",
    },
    "C10": {
        "ref": "DESIGN.md §4.3",
        "technique": "deterministic simulation: seeded session histories "
                     "with module-store/stream fault injection against a "
                     "reference model",
        "text": "Seeded search over histories of session commands (3-30 "
                "commands, 1-2 interleaved Interpreter instances, every "
                "import form of good/missing/broken/failing/circular user "
                "modules on a simulated module store, caller-supplied "
                "environments) with planned failures and injected transient "
                "and persistent open/read/stat/resource/stream faults; each "
                "command's outcome, output events and visible names are "
                "compared with an executable reference model, a repeated "
                "failing command with the error it gave the first time. "
                "Evidence, not proof: bounded by the seeds run.",
        "note": "Trusted: the reference model simckl/lang.py (session "
                "semantics as the statement gives them), the module-attribute "
                "seams (faults do not fire on code paths that bypass them; "
                "the audit hook reports bypasses), CPython's sys.monitoring. "
                "Loop-variable residue, checkerlang_* names and re-exported "
                "dependency module objects are treated as unspecified. The "
                "exhaustive length<=5 enumeration the quantifier mentions is "
                "not attempted (that would be bounded model checking).",
    },
}

PENDING = {
    "C09": "claimed in DESIGN.md §4.2; check not built yet",
    "C12": "claimed in DESIGN.md §4.5; check not built yet",
    "C13": "claimed (OS-facing slice) in DESIGN.md §4.6; check not built yet",
}


