"""What is claimed, per property (input of mkmanifest.py)."""

CLAIMED = {
    "C10": {
        "ref": "DESIGN.md §4.3",
        "technique": "deterministic simulation: seeded session histories "
                     "with module-store/stream fault injection against a "
                     "reference model",
        "text": "Seeded search over histories of session commands (3-30 "
                "commands, 1-2 interleaved Interpreter instances, every "
                "import form of good/missing/broken/failing/circular user "
                "modules on a simulated module store, caller-supplied "
                "environments) with planned failures and injected transient "
                "and persistent open/read/stat/resource/stream faults; each "
                "command's outcome, output events and visible names are "
                "compared with an executable reference model, a repeated "
                "failing command with the error it gave the first time. "
                "Evidence, not proof: bounded by the seeds run.",
        "note": "Trusted: the reference model simckl/lang.py (session "
                "semantics as the statement gives them), the module-attribute "
                "seams (faults do not fire on code paths that bypass them; "
                "the audit hook reports bypasses), CPython's sys.monitoring. "
                "Loop-variable residue, checkerlang_* names and re-exported "
                "dependency module objects are treated as unspecified. The "
                "exhaustive length<=5 enumeration the quantifier mentions is "
                "not attempted (that would be bounded model checking).",
    },
}

PENDING = {
    "C05": "claimed in DESIGN.md §4.1; check not built yet",
    "C09": "claimed in DESIGN.md §4.2; check not built yet",
    "C11": "claimed in DESIGN.md §4.4; check not built yet",
    "C12": "claimed in DESIGN.md §4.5; check not built yet",
    "C13": "claimed (OS-facing slice) in DESIGN.md §4.6; check not built yet",
}


